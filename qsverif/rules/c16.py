"""C16 - signals equal their definitions over the trailing window (DESIGN C16: S1 cadence, S2 key/window agreement, S3 parameter slots, S4 empty window)."""
import ast

from .. import terms as T
from ..lib import (summarise, heap_writes, V, A, normal, raising, cond_str, loc_attr, nested_events, no_inline, props_only, writers_of_attr, calls_named, as_len_test, len_range_of, strip_ndarray)
from ..symex import Valuation, Undecided, default_policy
from ..terms import fmt, ZERO, num

MID = 'BacktestDataHandler.get_asset_latest_mid_price'
READER_OFFSET = {}


def check(ctx):
    from ..lib import discarded_results
    ctx.sub(discarded_results, 'C16.S2', ('qstrader/signals/',), 'windows hold what the code actually ordered and trimmed')
    ctx.sub(cadence, 'C16.S1')
    ctx.sub(shared_tables)
    ctx.sub(s2_keys)
    ctx.sub(s3_slots)
    ctx.sub(s4_entry)
    from . import c19
    ctx.sub(c19.s1_membership)      # "an asset that enters a dynamic universe later": the universe reports it from its entry instant on, statelessly


def shared_tables(ctx):
    """the windows and what is derived from them belong to ONE buffers object: a table written in a class body of the signals package and never rebound per instance is
    shared by every buffers/signal object of the process (another collection, another session), and so is whatever is memoised in it"""
    from ..lib import class_level_table
    n = 0
    for c in ctx.M.classes.values():
        if not c.path.startswith('qstrader/signals/'):
            continue
        for name, v in c.class_attrs.items():
            if isinstance(v, (ast.Dict, ast.List, ast.Set)) or (isinstance(v, ast.Call) and isinstance(v.func, ast.Name) and v.func.id in ('dict', 'list', 'set', 'defaultdict', 'OrderedDict', 'deque')):
                n += 1
                written = any(isinstance(n_, ast.Subscript) and isinstance(n_.ctx, (ast.Store, ast.Del)) and isinstance(n_.value, ast.Attribute) and n_.value.attr == name
                              for m_ in c.methods.values() for n_ in ast.walk(m_.node)) or \
                    any(isinstance(n_, ast.Call) and isinstance(n_.func, ast.Attribute) and n_.func.attr in ('append', 'extend', 'update', 'add', 'setdefault', 'pop', 'clear', 'insert', 'appendleft')
                        and isinstance(n_.func.value, ast.Attribute) and n_.func.value.attr == name for m_ in c.methods.values() for n_ in ast.walk(m_.node))
                if class_level_table(ctx.M, c, name) and written:
                    ctx.violation('C16.S2', 'every buffers object keeps its own windows and what it derives from them', c.path,
                                  'READ: %s.%s is a container written in the class body, filled by the methods and never rebound per instance: every %s of the process shares it'
                                  % (c.name, name, c.name), key='C16.S2|shared|%s.%s' % (c.name, name))
    ctx.holds('C16.S2', 'no table of the signals package is shared between objects through a class body (%d class-level containers examined)' % n, None)


# ------------------------------------------------------------------------------------------------ S1
def late_bound_loop_lambdas(ctx, root):
    """lambdas created inside a for loop of `root` or its private steps that escape the iteration (stored in a container, yielded, returned) and read a
    loop variable as a free variable: python resolves it at call time.  -> [(site, [names])]"""
    from ..lib import private_closure
    fns = [ctx.M.funcs.get(q) for q in sorted(private_closure(ctx.M, set(root) if isinstance(root, (set, list, tuple)) else {root}))]
    return late_bound_in([g for g in fns if g is not None])


def late_bound_in(fns, with_yield=True):
    import ast as _ast
    out = []
    for g in fns:

        def walk(node, loopvars, parent):
            if isinstance(node, (_ast.For, _ast.AsyncFor)):
                tv = {n.id for n in _ast.walk(node.target) if isinstance(n, _ast.Name)}
                for ch in node.body:
                    walk(ch, loopvars | tv, node)
                for ch in node.orelse:
                    walk(ch, loopvars, node)
                walk(node.iter, loopvars, node)
                return
            if isinstance(node, (_ast.ListComp, _ast.SetComp, _ast.DictComp)):
                # an eager comprehension finishes before any of the callables it built can run: a lambda in its element that reads the comprehension variable
                # (not frozen as a default) sees the LAST element, whoever calls it
                cv = {n.id for g_ in node.generators for n in _ast.walk(g_.target) if isinstance(n, _ast.Name)}
                elts = [node.elt] if not isinstance(node, _ast.DictComp) else [node.key, node.value]
                for el in elts:
                    for lam in _ast.walk(el):
                        if isinstance(lam, _ast.Lambda):
                            params = {a.arg for a in lam.args.args + lam.args.kwonlyargs + lam.args.posonlyargs}
                            free = {n.id for n in _ast.walk(lam.body) if isinstance(n, _ast.Name) and isinstance(n.ctx, _ast.Load)} - params
                            if free & cv:
                                out.append((g.site(lam), sorted(free & cv), _ast.unparse(lam.body)))
            if isinstance(node, _ast.Call) and isinstance(node.func, _ast.Attribute) and node.func.attr in ('append', 'add', 'insert', 'appendleft', 'put') and loopvars:
                # a record / tuple holding the callable is stored: xs.append((asset, dollars, lambda: f(asset)))
                def direct(x):
                    if isinstance(x, _ast.Lambda):
                        yield x
                    elif isinstance(x, (_ast.Tuple, _ast.List, _ast.Set)):
                        for y in x.elts:
                            yield from direct(y)
                    elif isinstance(x, _ast.Dict):
                        for y in x.values:
                            yield from direct(y)
                    elif isinstance(x, _ast.Call) and isinstance(x.func, _ast.Name) and x.func.id[:1].isupper():
                        for y in list(x.args) + [k.value for k in x.keywords]:
                            yield from direct(y)          # a record constructor: Plan(asset, thunk)
                for a_ in node.args:
                    if isinstance(a_, _ast.Lambda):
                        continue            # handled below (parent is this call)
                    for lam in direct(a_):
                        params = {p_.arg for p_ in lam.args.args + lam.args.kwonlyargs + lam.args.posonlyargs}
                        free = {n.id for n in _ast.walk(lam.body) if isinstance(n, _ast.Name) and isinstance(n.ctx, _ast.Load)} - params
                        if free & loopvars:
                            out.append((g.site(lam), sorted(free & loopvars), _ast.unparse(lam.body)))
            if isinstance(node, _ast.FunctionDef) and loopvars and node is not g.node:
                # a function DEFINED in the loop body and put away for later (appended, yielded, returned, stored): it reads the loop variable when it is called
                params = {a.arg for a in node.args.args + node.args.kwonlyargs + node.args.posonlyargs}
                if node.args.vararg:
                    params.add(node.args.vararg.arg)
                if node.args.kwarg:
                    params.add(node.args.kwarg.arg)
                assigned = {n.id for b_ in node.body for n in _ast.walk(b_) if isinstance(n, _ast.Name) and isinstance(n.ctx, _ast.Store)}
                free = {n.id for b_ in node.body for n in _ast.walk(b_) if isinstance(n, _ast.Name) and isinstance(n.ctx, _ast.Load)} - params - assigned
                if free & loopvars and isinstance(parent, (_ast.For, _ast.AsyncFor, _ast.If, _ast.With, _ast.Try)):
                    sibs = parent.body if isinstance(parent, (_ast.For, _ast.AsyncFor)) else [s_ for s_ in _ast.walk(parent) if isinstance(s_, _ast.stmt)]
                    escapes = False
                    called_here = False
                    for s_ in sibs:
                        for n in _ast.walk(s_):
                            if isinstance(n, _ast.Call) and isinstance(n.func, _ast.Attribute) and n.func.attr in ('append', 'add', 'insert', 'appendleft', 'put', 'setdefault') \
                                    and any(isinstance(x_, _ast.Name) and x_.id == node.name for a_ in n.args for x_ in _ast.walk(a_)):
                                escapes = True
                            if isinstance(n, (_ast.Yield, _ast.Return) if with_yield else _ast.Return) and n.value is not None \
                                    and any(isinstance(x_, _ast.Name) and x_.id == node.name for x_ in _ast.walk(n.value)) \
                                    and not any(isinstance(c_, _ast.Call) and isinstance(c_.func, _ast.Name) and c_.func.id == node.name for c_ in _ast.walk(n.value)):
                                escapes = True
                            if isinstance(n, _ast.Assign) and any(isinstance(t_, (_ast.Subscript, _ast.Attribute)) for t_ in n.targets) and isinstance(n.value, _ast.Name) and n.value.id == node.name:
                                escapes = True
                    if escapes:
                        out.append((g.site(node), sorted(free & loopvars), 'def %s(...)' % node.name))
            if isinstance(node, _ast.Lambda) and loopvars:
                params = {a.arg for a in node.args.args + node.args.kwonlyargs + node.args.posonlyargs}
                if node.args.vararg:
                    params.add(node.args.vararg.arg)
                if node.args.kwarg:
                    params.add(node.args.kwarg.arg)
                free = {n.id for n in _ast.walk(node.body) if isinstance(n, _ast.Name) and isinstance(n.ctx, _ast.Load)} - params
                escaping = (isinstance(parent, _ast.Call) and isinstance(parent.func, _ast.Attribute) and parent.func.attr in ('append', 'add', 'insert', 'appendleft', 'put', 'setdefault')
                            and node in parent.args) or isinstance(parent, (_ast.Yield, _ast.Return) if with_yield else _ast.Return) or \
                    (isinstance(parent, _ast.Assign) and any(isinstance(t_, (_ast.Subscript, _ast.Attribute)) for t_ in parent.targets))
                if escaping and free & loopvars:
                    out.append((g.site(node), sorted(free & loopvars), _ast.unparse(node.body)))
                # defaults are evaluated at creation time: fine
            for ch in _ast.iter_child_nodes(node):
                walk(ch, loopvars, node)
        walk(g.node, set(), None)
    return out


def run_loop_table(ctx):
    """Decision table of the body of BacktestTradingSession.run's event loop (shared with C14).
    -> list of (valuation dict, [action names in order]) ; raises Undecided when a test is not decidable from the atoms."""
    fn = ctx.fn('BacktestTradingSession.run')
    out = []
    import itertools
    marks = {'SimulatedBroker.update': 'broker.update', 'SignalsCollection.update': 'signals.update', 'QuantTradingSystem.__call__': 'qts',
             'BacktestTradingSession._update_equity_curve': 'equity'}
    # (the method may be defined by a base class of the object: Broker.update as a template method run on the simulated broker)
    for q_, a_ in list(marks.items()):
        cn_, mn_ = q_.rsplit('.', 1)
        c_ = ctx.M.cls(cn_)
        m_ = c_.lookup(mn_) if c_ is not None else None
        if m_ is not None and m_.qn not in marks:
            marks[m_.qn] = a_
    from fractions import Fraction as Fr
    # the burn-in ordering, each with concrete instants (in days) so that tests computed FROM the two instants (dates, differences) are decided too:
    # the same calendar day and different days are both represented
    burns = [(None, None), ('<', (Fr(80500, 800), Fr(80792, 800))), ('<', (Fr(80700, 800), Fr(80800, 800))), ('=', (Fr(80700, 800), Fr(80700, 800))),
             ('>', (Fr(80700, 800), Fr(80500, 800))), ('>', (Fr(81300, 800), Fr(80700, 800)))]
    for sig_none, et, (burn, inst), reb, pr in itertools.product([True, False], ['market_open', 'market_close', 'pre_market', 'post_market'], burns,
                                                                 [True, False], [True, False]):
        el = 'elem(self.sim_engine)'
        facts = {'settings.PRINT_EVENTS': pr, 'results': False,
                 'BacktestTradingSession._is_rebalance_event(self, %s.ts)' % el: reb, '%s.ts in self.rebalance_schedule' % el: reb}
        order = {}
        nums = {}
        if burn:
            order[('%s.ts' % el, 'self.burn_in_dt')] = burn
            nums = {'%s.ts' % el: inst[0], 'self.burn_in_dt': inst[1]}
        val = Valuation(order=order, facts=facts, isnone={'self.signals': sig_none, 'self.burn_in_dt': burn is None}, strs={'%s.event_type' % el: et}, nums=nums)

        def pol(caller, callee, depth):
            # private helpers of the session (burn-in tests etc.) are seen through; the four marked actions stay call events
            return default_policy(caller, callee, depth) and callee.qn not in marks and callee.qn != 'BacktestTradingSession._is_rebalance_event'
        from ..symex import SymEx
        sx = SymEx(ctx.M, policy=pol, oracle=val, skip_print_guards=False)
        ps = sx.run_entry(fn)
        ctx.paths_explored += len(ps)
        nps = [p for p in ps if p.outcome in ('fall', 'return')]
        acts = set()
        for p in nps:
            loops = [e for e in p.events if e.kind == 'loop' and fmt(e.iter) == 'self.sim_engine']
            if len(loops) != 1:
                raise Undecided('run has one loop over self.sim_engine (found %d)' % len(loops))
            for e_ in p.events:
                if e_.kind == 'loop' and e_ is not loops[0] and any(x_.kind == 'call' and any(c_ in marks for c_ in x_.callee) for q_ in e_.paths for x_ in q_.flat_events()):
                    # the marked steps (also) run in another loop - over a generator that feeds the events, say: which event each belongs to is not read here
                    val.unknown.append('unread: marked steps run in a loop over %s' % (fmt(e_.iter)[:60] if e_.iter is not None else 'an unread sequence'))
            for b in loops[0].paths:
                seq = []
                for e in b.flat_events():
                    if e.kind == 'call':
                        for c in e.callee:
                            if c in marks:
                                a = e.args.get('dt')
                                seq.append((marks[c], fmt(a) if a is not None else None))
                        if any(c in ('ext:APPLY',) for c in e.callee):
                            # a step applied as a value (a deferred call taken from a generator or a list the engine did not unroll): what it does is not read
                            val.unknown.append('unread: a step applied as a value at %s' % e.site)
                    elif e.kind == 'write' and not e.d.get('local') and e.how.startswith('mut:') and loc_attr(e.loc) == 'equity_curve' \
                            and 'BacktestTradingSession._update_equity_curve' not in ctx.M.funcs:
                        # the sampler under another name (read through as a private step): the append to the curve is the action
                        seq.append(('equity', None))
                for c_, v_, s_ in b.conds:
                    if any(z_[0] == 'call' and z_[1] == ('ext', 'APPLY') for z_ in T.subterms(c_)):
                        # a test that applies a value as a function (all(check(dt) for check in (self._a, self._b))): which checks run is not read
                        val.unknown.append('unread: a test applies a value as a function: %s' % fmt(c_)[:80])
                und = [c for c, v, s in b.conds if T.tkey(c) not in ()]
                acts.add((tuple(seq), b.outcome))
        out.append((dict(signals=not sig_none, event=et, burn_in=burn, rebalance=reb, print_events=pr,
                         instants=('event at day %s, burn-in at day %s' % (float(inst[0]), float(inst[1]))) if inst else None), sorted(acts), sorted(set(val.unknown))))
    return out


def cadence(ctx, rule):
    fn = ctx.fn('BacktestTradingSession.run')
    table = run_loop_table(ctx)
    bad = 0
    n = 0
    for v, acts, unknown in table:
        n += 1
        if len(acts) != 1:
            ctx.undecided(rule, 'the event loop of run is decided by (signals, event type, burn-in ordering, schedule membership)', fn.site(),
                          '%s -> %d outcomes; undecided tests: %s' % (v, len(acts), unknown[:4]))
            return
        seq, outcome = acts[0]
        got = [a for a, arg in seq if a == 'signals.update']
        exp = 1 if (v['signals'] and v['event'] == 'market_close') else 0
        if len(got) != exp and any(str(u_).startswith('unread:') for u_ in unknown):
            ctx.undecided(rule, 'signals are updated exactly once per market close and at no other event', fn.site(), [u_ for u_ in unknown if str(u_).startswith('unread:')][0])
            return
        if len(got) != exp:
            bad += 1
            ctx.violation(rule, 'signals are updated exactly once per market close and at no other event', fn.site(),
                          'valuation %s: %d signal updates, expected %d' % (v, len(got), exp), key='%s|cadence' % rule)
        for a, arg in seq:
            if a == 'signals.update' and arg != 'elem(self.sim_engine).ts':
                ctx.violation(rule, 'signals are updated with the event time', fn.site(), 'dt=%s' % arg, key='%s|cadence-dt' % rule)
    if not bad:
        ctx.holds(rule, 'signals.update(dt) runs once per event iff signals are configured and the event is a market close (%d valuations)' % n, fn.site())
    # inside the collection: every signal first learns the universe, then every tracked asset gets one append of the mid price at dt
    qn = 'SignalsCollection.update'
    f2 = ctx.fn(qn)
    ps = summarise(ctx, qn, policy=default_policy)
    nps = normal(ps)
    if not ctx.require(len(nps) == 1 if len(nps) == 1 else None, rule, 'SignalsCollection.update is straight-line', f2.site(), [cond_str(p) for p in nps]):
        return
    p = nps[0]
    seen_append = False
    upd = app = 0
    for e, loops, conds in nested_events(p):
        if e.kind == 'call' and 'Signal.update_assets' in e.callee:
            upd += 1
            ctx.require(not seen_append, rule, 'universes are refreshed before any price is appended', e.site, key='%s|order' % rule)
            ctx.require(e.args.get('dt') == V('dt') and len(loops) == 1 and fmt(loops[0][0].iter) in ('self.signals.items()', 'self.signals.values()', 'self.signals')
                        and not conds, rule, 'every signal refreshes its asset list at dt', e.site, key='%s|update-assets' % rule)
        if e.kind == 'call' and 'Signal.append' in e.callee:
            app += 1
            seen_append = True
            price = e.args.get('price')
            asset = e.args.get('asset')
            ok = price is not None and price[0] == 'call' and price[1] == ('fn', MID) and price[2][1] == V('dt') and price[2][2] == asset
            ctx.require(ok, rule, 'the observation appended is the mid price of that asset at dt', e.site, fmt(price)[:120] if price else None, key='%s|price' % rule)
            ok = len(loops) == 2 and fmt(loops[0][0].iter) in ('self.signals.items()', 'self.signals.values()', 'self.signals') and fmt(loops[1][0].iter).endswith('.assets') and not conds
            if not ok and any(l[0].iter is None or fmt(l[0].iter) == 'None' or any(s_[0] in ('havoc', 'lc') for s_ in T.subterms(l[0].iter)) for l in loops):
                # the appends are driven by something the engine did not read as a sequence (a generator method feeding (signal, asset, price) triples): what it
                # ranges over is not decided here
                ctx.undecided(rule, 'one append for every tracked asset of every signal, unconditionally', e.site, 'the loop ranges over %s' % [fmt(l[0].iter)[:60] if l[0].iter else None for l in loops])
                continue
            ctx.require(ok, rule, 'one append for every tracked asset of every signal, unconditionally', e.site, [fmt(l[0].iter) for l in loops], key='%s|append-loop' % rule)
            ctx.require(asset == ('elem', loops[1][0].iter, loops[1][0].id) if len(loops) == 2 else None, rule, 'the asset appended is the loop asset', e.site, key='%s|append-asset' % rule)
            for l, b in loops:
                ctx.require(all(x.outcome == 'fall' for x in l.paths), rule, 'the append loops never break or skip', l.site, key='%s|append-break' % rule)
    deferred = False
    if app == 0:
        # appends wrapped in callables that are collected first and applied later (a list of lambdas / partials) are not followed: if such a
        # deferred two-argument .append(asset, price) exists in update or its private steps, the clause is left open rather than reported as missing
        import ast as _ast
        from ..lib import private_closure
        for q in private_closure(ctx.M, {qn}):
            g = ctx.M.funcs.get(q)
            for n_ in (_ast.walk(g.node) if g is not None else ()):
                if isinstance(n_, (_ast.Lambda, _ast.FunctionDef)) and n_ is not g.node:
                    deferred = deferred or any(isinstance(c_, _ast.Call) and isinstance(c_.func, _ast.Attribute) and c_.func.attr == 'append' and len(c_.args) + len(c_.keywords) == 2
                                               for c_ in _ast.walk(n_))
                if isinstance(n_, _ast.Call) and ctx.M.ext_name(g.mod, n_.func) in ('functools.partial',) and n_.args and isinstance(n_.args[0], _ast.Attribute) and n_.args[0].attr == 'append':
                    deferred = True
    if app == 0 and not deferred:
        # ... or handed to a record / helper object of the same module whose method does the two-argument append (observation.deliver())
        import ast as _ast
        for g in ctx.M.all_funcs():
            if g.path == f2.path and g.qn != qn and g.cls is not None and g.cls is not f2.cls:
                deferred = deferred or any(isinstance(c_, _ast.Call) and isinstance(c_.func, _ast.Attribute) and c_.func.attr == 'append' and len(c_.args) + len(c_.keywords) == 2
                                           for c_ in _ast.walk(g.node))
    late = late_bound_loop_lambdas(ctx, qn) if deferred else []
    if late:
        ctx.violation(rule, 'every deferred update is applied to the signal and asset it was created for', late[0][0],
                      'the callable created in the loop reads the loop variable%s %s when it is finally called (after the loop has moved on), not when it was created' % (
                          's' if len(late[0][1]) > 1 else '', ', '.join(late[0][1])), key='%s|late-binding' % rule)
    elif deferred and upd == 1:
        ctx.undecided(rule, 'one refresh site and one append site in SignalsCollection.update', f2.site(), 'the appends are deferred callables applied later; not followed')
    else:
        ctx.require(upd == 1 and app == 1, rule, 'one refresh site and one append site in SignalsCollection.update', f2.site(), '%d refresh, %d append' % (upd, app),
                    key='%s|sites' % rule)
    # Signal.append forwards to the buffers unchanged
    ps = summarise(ctx, 'Signal.append', policy=no_inline)
    for p in normal(ps):
        cs = [e for e in p.flat_events() if e.kind == 'call' and 'AssetPriceBuffers.append' in e.callee]
        ok = len(cs) == 1 and cs[0].args.get('asset') == V('asset') and cs[0].args.get('price') == V('price')
        ctx.require(ok, rule, 'Signal.append forwards (asset, price) to its buffers once', cs[0].site if cs else ctx.fn('Signal.append').site(), key='%s|forward' % rule)
    # buffers: one append per lookback of the asset
    ps = summarise(ctx, 'AssetPriceBuffers.append', policy=default_policy)
    for p in normal(ps):
        n_app = 0
        for e, loops, conds in nested_events(p):
            if e.kind == 'write' and e.how == 'mut:append' and loc_attr(e.loc) == 'prices':
                n_app += 1
                key = e.loc[2]
                lk = ('elem', loops[-1][0].iter, loops[-1][0].id) if loops else None
                ok = len(loops) == 1 and fmt(loops[0][0].iter) == 'self.lookbacks' and key == ('fmt', ('str', '%s_%s'), ('tuple', (V('asset'), lk))) \
                    and e.value[2][1:] == (V('price'),) and all(b.outcome == 'fall' and not b.conds for b in loops[0][0].paths)
                ctx.require(ok, rule, 'each price is appended once to every lookback buffer of that asset [%s]' % cond_str(p)[:60], e.site, fmt(e.loc)[:120],
                            key='%s|buffer-append' % rule)
        ctx.require(n_app == 1, rule, 'one buffer-append site per observation [%s]' % cond_str(p)[:60], ctx.fn('AssetPriceBuffers.append').site(), n_app, key='%s|buffer-sites' % rule)


# ------------------------------------------------------------------------------------------------ S2
def _offset(t, base):
    """k such that t == base + k (k a number), else None"""
    d = T.t_sub(t, base)
    return d[1] if d[0] == 'num' else None


def _signals_inline(caller, callee, depth):
    return depth <= 10


def _unzip_comp(c):
    """{k: v for k, l in zip([f(x) for x in L], L)}  ==  {f(x): v[l := x] for x in L}: one generator over the common source"""
    gens = c[3]
    if len(gens) != 1 or gens[0][2]:
        return c
    shape, src, _ = gens[0]
    if not (src[0] == 'call' and src[1] == ('ext', 'ZIP') and len(src[2]) == len(shape) and len(shape) >= 2):
        return c
    plain = [a for a in src[2] if not (a[0] == 'comp' and a[1] in ('list', 'gen'))]
    if len(set(plain)) != 1:
        return c
    L = plain[0]
    nb = ('bv', max([z[1] for z in T.subterms(c) if z[0] == 'bv'] + [0]) + 1)
    m = {}
    for bv, a in zip(shape, src[2]):
        if a == L:
            m[bv] = nb
        elif len(a[3]) == 1 and a[3][0][1] == L and not a[3][0][2] and len(a[3][0][0]) == 1:
            inner = a[3][0][0][0]
            m[bv] = T.replace(a[2], lambda z, inner=inner: nb if z == inner else None)
        else:
            return c
    body = T.replace(c[2], lambda z: m.get(z) if z[0] == 'bv' else None)
    return ('comp', c[1], body, (((nb,), L, ()),))


def _fuse_nested(c):
    """{f(k): v for k in [g(a) for a in A]}  ==  {f(g(a)): v for a in A}"""
    for _ in range(4):
        gens = list(c[3])
        changed = False
        for i, (shape, src, conds) in enumerate(gens):
            if len(shape) == 1 and src[0] == 'comp' and src[1] in ('list', 'gen') and len(src[3]) == 1 and not src[3][0][2]:
                top = max([z[1] for z in T.subterms(c) if z[0] == 'bv'] + [0])
                inner_shape = src[3][0][0]
                ren = {b: ('bv', top + 1 + j) for j, b in enumerate(inner_shape)}
                elt = T.replace(src[2], lambda z: ren.get(z) if z[0] == 'bv' else None)
                bv = shape[0]
                sub = lambda t: T.replace(t, lambda z: elt if z == bv else None)
                gens[i] = (tuple(ren[b] for b in inner_shape), src[3][0][1], tuple(sub(x) for x in conds))
                for j in range(i + 1, len(gens)):
                    gens[j] = (gens[j][0], sub(gens[j][1]), tuple(sub(x) for x in gens[j][2]))
                c = ('comp', c[1], sub(c[2]), tuple(gens))
                changed = True
                break
        if not changed:
            break
    return c


def _deque_rows(term, lookbacks_param):
    """(key offset, maxlen offset) of every '<asset>_<lookback + ko>' -> deque(maxlen=lookback + mo) table inside `term`, relative to an element of the
    lookbacks the signal constructor was given; 'shared' when one deque object is stored under several keys; None entries for tables not understood"""
    def element_of(src):
        """how an element of `src` is written in terms of an element e of the lookbacks given: a function z -> term, or None"""
        if src == lookbacks_param:
            return lambda z: None
        if src[0] == 'comp' and src[1] in ('list', 'gen') and len(src[3]) == 1 and src[3][0][1] == lookbacks_param and not src[3][0][2] and len(src[3][0][0]) == 1:
            return lambda z, src=src: (src[2], src[3][0][0][0])
        return False
    rows = []
    for s in T.subterms(term):
        if s[0] == 'call' and s[1][0] in ('ext', 'meth') and s[1][1] in ('DICT.fromkeys', 'dict.fromkeys', 'fromkeys', 'builtins.dict.fromkeys') and len(s[2]) >= 2 and \
                any(z[0] == 'call' and z[1] == ('ext', 'collections.deque') for z in T.subterms(s[2][-1])):
            rows.append('shared')
        if s[0] == 'call' and s[1] == ('ext', 'SETITEM') and len(s[2]) == 3 and s[2][2][0] == 'call' and s[2][2][1] == ('ext', 'collections.deque'):
            # table[key] = deque(...) inside statement loops: the same row, its variables being loop elements
            c = ('comp', 'dict', ('tuple', (s[2][1], s[2][2])), ())
        elif not (s[0] == 'comp' and s[1] == 'dict'):
            continue
        elif not any(z[0] == 'call' and z[1] == ('ext', 'collections.deque') for z in T.subterms(s[2])):
            continue
        else:
            c = _fuse_nested(_unzip_comp(s))
        k, v = c[2][1]
        row = None
        if v[0] == 'call' and v[1] == ('ext', 'collections.deque') and k[0] == 'fmt' and k[1] == ('str', '%s_%s') and k[2][0] == 'tuple' and len(k[2][1]) == 2:
            ml = dict(v[3]).get('maxlen', v[2][1] if len(v[2]) > 1 else None)
            kt = k[2][1][1]
            # the variable that ranges over the lookbacks: a generator variable of this comprehension, or the element of an enclosing statement loop
            cands = [(shape[0], src) for shape, src, conds in c[3] if len(shape) == 1 and not conds]
            cands += [(z, z[1]) for z in T.subterms(kt) if z[0] == 'elem']
            for var, src in cands:
                how = element_of(src)
                if how is False:
                    continue
                m = how(var)
                if m is None:
                    k2, ml2, base = kt, ml, var
                else:
                    f_, inner = m
                    k2 = T.replace(kt, lambda z: f_ if z == var else None)
                    ml2 = T.replace(ml, lambda z: f_ if z == var else None) if ml is not None else None
                    base = inner
                ko, mo = _offset(k2, base), (_offset(ml2, base) if ml2 is not None else None)
                if ko is not None and mo is not None:
                    row = (ko, mo)
        rows.append(row)
    return rows


def signal_window(ctx, cname):
    """(key offset, window offset) of the price buffers a freshly constructed <cname> holds, from the constructor's own summary with the buffer object built
    structurally - whichever of signal class, base class or buffer class applies the '+1 price for N returns' adjustment.  Raises Undecided when not understood."""
    from ..symex import SymEx, VALUE_CLASSES, State
    cls = ctx.cls(cname)
    init = cls.lookup('__init__')
    if init is None:
        raise Undecided('%s has no constructor' % cname)
    vc = set(VALUE_CLASSES) | {'AssetPriceBuffers'}
    ips = normal(SymEx(ctx.M, policy=_signals_inline, value_classes=vc).run(init, dyn=cls))
    ctx.paths_explored += len(ips)
    if len(ips) != 1:
        raise Undecided('%s.__init__ has %d accepting paths' % (cname, len(ips)))
    b = ips[0].heap.get(A('self', 'buffers'))
    if b is None or b[0] != 'new':
        raise Undecided('%s.__init__ does not leave a structurally built buffer object in self.buffers: %s' % (cname, fmt(b)[:80] if b else None))
    fields = dict(b[2])
    lb = V('lookbacks')
    rows = _deque_rows(fields.get('prices', ZERO), lb)
    # assets that join later get their buffers from add_asset: same table
    bc = ctx.cls(b[1])
    add = bc.lookup('add_asset') if bc is not None else None
    if add is not None:
        heap = {A('self', k): v for k, v in b[2]}
        aps = SymEx(ctx.M, policy=_signals_inline, value_classes=vc).run(add, state=State(heap=heap), dyn=bc)
        for p in normal(aps):
            for w in heap_writes(p, 'prices'):
                if w.value is not None:
                    rows += _deque_rows(w.value, lb)
    return ips[0], rows


def s2_keys(ctx):
    table = {'MomentumSignal': ('_cumulative_return', 1, 'returns'), 'VolatilitySignal': ('_annualised_vol', 1, 'returns'), 'SMASignal': ('_simple_moving_average', 0, 'prices')}
    for cname, (reader, want, kind) in table.items():
        c = ctx.cls(cname)
        site0 = (c.lookup('__init__') or c.lookup(reader)).site()
        try:
            ip, rows = signal_window(ctx, cname)
        except Undecided as u:
            ctx.undecided('C16.S2', "%s's buffers are keyed '<asset>_<lookback + k>' with a fresh deque per key" % cname, site0, str(u)[:200])
            continue
        if 'shared' in rows:
            ctx.violation('C16.S2', "%s: buffers are keyed '<asset>_<lookback>' with a fresh deque(maxlen=...) per key" % cname, site0,
                          'dict.fromkeys(keys, deque(...)) stores ONE deque object under every key: all assets share a window', key='C16.S2|writer')
            continue
        good = {r for r in rows if r is not None}
        if not rows or None in rows or len(good) != 1:
            if len(good) > 1:
                ctx.violation('C16.S2', '%s: the buffers built at construction and those added for later assets have the same keys and windows' % cname, site0,
                              'tables (key offset, window offset): %s' % sorted(good), key='C16.S2|%s|tables-agree' % cname)
            else:
                ctx.undecided('C16.S2', "%s's buffers are keyed '<asset>_<lookback + k>' with a fresh deque per key" % cname, site0, 'buffer tables not of the recognised form: %s' % rows)
            continue
        ko, mo = good.pop()
        ctx.holds('C16.S2', "%s: buffers are keyed '<asset>_<lookback%+d>' with a fresh deque(maxlen=lookback%+d) per key (constructor and add_asset)" % (cname, ko, mo), site0)
        rf = ctx.fn('%s.%s' % (cname, reader))
        ps = summarise(ctx, rf, policy=default_policy)
        offs = set()
        for p in ps:
            ts = list(T.subterms(p.value)) if p.value is not None else []
            for c_, _, _ in p.conds:
                ts += list(T.subterms(c_))
            for s in ts:
                if s[0] == 'sub' and s[1] == A(A('self', 'buffers'), 'prices'):
                    k = s[2]
                    if k[0] == 'fmt' and k[1] == ('str', '%s_%s') and k[2][0] == 'tuple' and k[2][1][0] == V('asset'):
                        offs.add(_offset(k[2][1][1], V('lookback')))
                    else:
                        offs.add('?')
        if not ctx.require(len(offs) == 1 and '?' not in offs if (offs and '?' not in offs and None not in offs) else None, 'C16.S2', "%s reads the buffer '<asset>_<lookback + k>'" % cname, rf.site(), str(offs)):
            continue
        rk = offs.pop()
        READER_OFFSET[cname] = rk
        ctx.require(rk == ko, 'C16.S2', '%s: the reader\'s key offset equals the key offset the constructor stores under' % cname, rf.site(),
                    'constructor stores under lookback%+d, reader looks up lookback%+d' % (ko, rk), key='C16.S2|%s|agree' % cname)
        ctx.require(mo == want, 'C16.S2', '%s keeps N%s prices for an N-period %s' % (cname, '+1' if want else '', 'signal of returns' if want else 'average'), rf.site(),
                    'window is lookback%+d' % mo, key='C16.S2|%s|window' % cname)
        ctx.sample({'rule': 'C16.S2', 'signal': cname, 'key_offset': str(ko), 'window_offset': str(mo), 'reader_offset': str(rk)})
    ws = writers_of_attr(ctx.M, 'lookbacks')
    ctx.require(all(w.fn.name == '__init__' and w.how.startswith('assign:field') for w in ws), 'C16.S2', 'lookbacks are set only by constructors', ws[0].where if ws else None,
                [w.fn.qn for w in ws], key='C16.S2|lookbacks-writers')


# ------------------------------------------------------------------------------------------------ S3
def _returns_of(buf):
    s = ('call', ('ext', 'pandas.Series'), (buf,), ())
    r = ('call', ('meth', 'pct_change'), (s,), ())
    r = ('call', ('meth', 'dropna'), (r,), ())
    return ('call', ('meth', 'to_numpy'), (r,), ())


def s3_slots(ctx):
    def buf(k):
        return ('sub', A(A('self', 'buffers'), 'prices'), ('fmt', ('str', '%s_%s'), ('tuple', (V('asset'), T.t_add(V('lookback'), num(k))))))
    # volatility: population std of the simple returns x sqrt(252), 0 while no return exists
    qn = 'VolatilitySignal._annualised_vol'
    fn = ctx.fn(qn)
    ps = summarise(ctx, qn, policy=default_policy)
    r = _returns_of(buf(READER_OFFSET.get('VolatilitySignal', 1)))
    r0 = strip_ndarray(r)
    for p in ps:
        if p.outcome != 'return':
            ctx.violation('C16.S3', 'volatility never raises', fn.site(), key='C16.S3|vol|raise')
            continue
        lo, hi, seen = len_range_of(p, r0, norm=strip_ndarray)
        if not seen:
            ctx.undecided('C16.S3', 'volatility branches on whether a return exists yet', fn.site(), cond_str(p)[:200])
            continue
        if p.value == ZERO:
            # 0 is right with no return, and also with exactly one (the population deviation of a single value is 0)
            ctx.require(hi is not None and hi <= 1, 'C16.S3', 'volatility is 0 only while at most one return exists', fn.site(),
                        'returns 0 for windows of %d..%s returns' % (lo, hi if hi is not None else 'any number of'), key='C16.S3|vol|warmup')
            continue
        if not ctx.require(lo >= 1, 'C16.S3', 'volatility is 0 while no return exists', fn.site(), fmt(p.value)[:120], key='C16.S3|vol|warmup'):
            continue
        v = p.value
        stds = [s for s in T.subterms(v) if s[0] == 'call' and s[1][0] == 'ext' and s[1][1] in ('STD', 'STD1', 'NANSTD', 'VAR')]
        meth_std = [s for s in T.subterms(v) if s[0] == 'call' and s[1] == ('meth', 'std')]
        if meth_std:
            dd = dict(meth_std[0][3]).get('ddof')
            recv = meth_std[0][2][0]
            is_ndarray = (recv[0] == 'call' and recv[1] in (('meth', 'to_numpy'), ('ext', 'ARRAY'))) or (recv[0] == 'attr' and recv[2] == 'values')
            if is_ndarray:
                ctx.require(dd is None or dd == ZERO, 'C16.S3', 'volatility uses the population standard deviation (ndarray.std, ddof=0)', fn.site(), fmt(dd) if dd else None, key='C16.S3|vol|ddof')
                exp = T.t_mul(('call', ('ext', 'SQRT'), (num(252),), ()), meth_std[0])
                ctx.require(strip_ndarray(recv) == r0 and T.teq(v, exp), 'C16.S3', 'volatility = std(simple returns of the window) x sqrt(252)', fn.site(), fmt(v)[:200], key='C16.S3|vol|formula')
            else:
                ctx.require(dd == ZERO, 'C16.S3', 'volatility uses the population standard deviation', fn.site(), 'Series.std() defaults to ddof=1 (sample deviation)', key='C16.S3|vol|ddof')
                exp = T.t_mul(('call', ('ext', 'SQRT'), (num(252),), ()), meth_std[0])
                ctx.require(strip_ndarray(recv) == r0 and T.teq(v, exp), 'C16.S3', 'volatility = std(simple returns of the window) x sqrt(252)', fn.site(),
                            'deviation taken over %s' % fmt(recv)[:160], key='C16.S3|vol|formula')
        elif len(stds) == 1 and stds[0][1][1] == 'STD':
            dd = dict(stds[0][3]).get('ddof')
            ctx.require(dd is None or dd == ZERO, 'C16.S3', 'volatility uses the population standard deviation (ddof=0)', fn.site(), 'ddof=%s' % (fmt(dd) if dd else None),
                        key='C16.S3|vol|ddof')
            exp = T.t_mul(('call', ('ext', 'SQRT'), (num(252),), ()), ('call', ('ext', 'STD'), (r0,), tuple(stds[0][3])))
            ctx.require(T.teq(strip_ndarray(v), exp), 'C16.S3', 'volatility = std(simple returns of the window) x sqrt(252)', fn.site(), fmt(v)[:200], key='C16.S3|vol|formula')
        elif stds:
            ctx.violation('C16.S3', 'volatility uses the population standard deviation', fn.site(), fmt(stds[0])[:80], key='C16.S3|vol|ddof')
        else:
            ctx.undecided('C16.S3', 'volatility pipeline is one of the tabled idioms', fn.site(), fmt(v)[:200])
    # momentum: last/first - 1 over the window, via compounding the simple returns
    qn = 'MomentumSignal._cumulative_return'
    fn = ctx.fn(qn)
    r = _returns_of(buf(READER_OFFSET.get('MomentumSignal', 1)))
    r0 = strip_ndarray(r)
    ps = summarise(ctx, qn, policy=default_policy)
    for p in ps:
        if p.outcome != 'return':
            ctx.violation('C16.S3', 'momentum never raises', fn.site(), key='C16.S3|mom|raise')
            continue
        lo, hi, seen = len_range_of(p, r0, norm=strip_ndarray)
        if not seen:
            ctx.undecided('C16.S3', 'momentum branches on whether a return exists yet', fn.site(), cond_str(p)[:200])
            continue
        if p.value == ZERO:
            ctx.require(hi == 0, 'C16.S3', 'momentum is 0 only while no return exists', fn.site(),
                        'returns 0 for windows of %d..%s returns' % (lo, hi if hi is not None else 'any number of'), key='C16.S3|mom|warmup')
            continue
        if not ctx.require(lo >= 1, 'C16.S3', 'momentum is 0 while no return exists', fn.site(), fmt(p.value)[:120], key='C16.S3|mom|warmup'):
            continue
        v = p.value
        arr = ('call', ('ext', 'ARRAY'), (r,), ())
        alts = []
        for rr in (arr, r):
            cp = ('call', ('ext', 'CUMPROD'), (T.t_add(num(1), rr),), ())
            alts.append(T.t_sub(('sub', cp, num(-1)), num(1)))
            alts.append(('sub', T.t_sub(cp, num(1)), num(-1)))
            alts.append(T.t_sub(('call', ('ext', 'PROD'), (T.t_add(num(1), rr),), ()), num(1)))
        b = buf(READER_OFFSET.get('MomentumSignal', 1))
        alts.append(T.t_sub(T.t_div(('sub', b, num(-1)), ('sub', b, num(0))), num(1)))
        if any(T.teq(strip_ndarray(v), strip_ndarray(a)) for a in alts):
            ctx.holds('C16.S3', 'momentum = compounded simple returns of the window - 1 (= last/first - 1)', fn.site())
        else:
            prods = [s for s in T.subterms(v) if s[0] == 'call' and s[1][0] == 'ext' and s[1][1] in ('CUMPROD', 'PROD', 'CUMSUM', 'SUM', 'MEAN')]
            if prods and prods[0][1][1] in ('CUMSUM', 'SUM', 'MEAN'):
                ctx.violation('C16.S3', 'momentum compounds the returns (product), it does not add them', fn.site(), fmt(v)[:200], key='C16.S3|mom|formula')
            elif prods:
                ctx.violation('C16.S3', 'momentum = prod(1 + r) - 1 over all returns of the window, taken at the last element', fn.site(), fmt(v)[:200], key='C16.S3|mom|formula')
            else:
                ctx.undecided('C16.S3', 'momentum pipeline is one of the tabled idioms', fn.site(), fmt(v)[:200])
    # moving average: mean of the prices available
    qn = 'SMASignal._simple_moving_average'
    fn = ctx.fn(qn)
    ps = summarise(ctx, qn, policy=default_policy)
    b0 = buf(READER_OFFSET.get('SMASignal', 0))
    for p in ps:
        if p.outcome != 'return':
            continue
        v = p.value
        ln = ('call', ('ext', 'LEN'), (b0,), ())
        sm = ('call', ('ext', 'SUM'), (b0,), ())
        if T.teq(v, ('call', ('ext', 'MEAN'), (b0,), ())) or T.teq(v, T.t_div(sm, ln)):
            ctx.holds('C16.S3', 'moving average = mean of the prices in the window (shorter window while warming up)', fn.site())
        elif any(s[0] == 'call' and s[1][0] == 'ext' and s[1][1] in ('SUM', 'MEAN', 'MEDIAN', 'NANMEAN') for s in T.subterms(v)):
            ctx.violation('C16.S3', 'moving average = mean of the prices in the window (shorter window while warming up)', fn.site(),
                          'computed as %s' % fmt(v)[:160], key='C16.S3|sma|formula')
        else:
            ctx.undecided('C16.S3', 'moving-average pipeline is one of the tabled idioms', fn.site(), fmt(v)[:200])
    for cname, reader in (('MomentumSignal', '_cumulative_return'), ('VolatilitySignal', '_annualised_vol'), ('SMASignal', '_simple_moving_average')):
        ps = summarise(ctx, '%s.__call__' % cname, policy=no_inline)
        for p in ps:
            v = p.value
            ok = p.outcome == 'return' and v is not None and v[0] == 'call' and v[1] == ('fn', '%s.%s' % (cname, reader)) and v[2][1:] == (V('asset'), V('lookback'))
            ctx.require(ok, 'C16.S3', '%s(asset, lookback) returns the reader\'s value unmodified' % cname, ctx.fn('%s.__call__' % cname).site(), fmt(v)[:100] if v else None,
                        key='C16.S3|%s|call' % cname)


# ------------------------------------------------------------------------------------------------ S4
def s4_entry(ctx):
    qn = 'Signal.update_assets'
    fn = ctx.fn(qn)
    ps = summarise(ctx, qn, policy=no_inline)
    nps = normal(ps)
    if not ctx.require(len(nps) == 1 if len(nps) == 1 else None, 'C16.S4', 'Signal.update_assets is straight-line', fn.site()):
        return
    p = nps[0]
    uni = [e for e in p.flat_events() if e.kind == 'call' and any(c.endswith('.get_assets') for c in e.callee)]
    ctx.require(len(uni) == 1 and uni[0].args.get('dt') == V('dt') and uni[0].d.get('recv') == A('self', 'universe'), 'C16.S4',
                'the asset list is refreshed from the universe at dt', uni[0].site if uni else fn.site(), key='C16.S4|universe')
    loops = [e for e in p.events if e.kind == 'loop']
    apps = [(e, l) for e, l, c in nested_events(p) if e.kind == 'write' and e.how == 'mut:append' and loc_attr(e.loc) == 'assets']
    exts = [e for e in p.flat_events() if e.kind == 'write' and e.how == 'mut:extend' and loc_attr(e.loc) == 'assets']
    bulk = uni and not loops and not apps and len(exts) == 1 and exts[0].value[0] == 'call' and len(exts[0].value[2]) == 2
    if (uni and len(loops) == 1 and len(apps) == 1) or bulk:
        u = uni[0].result
        # L.extend(X) appends every element of X once, in order: the same as the loop `for a in X: L.append(a)`
        it = exts[0].value[2][1] if bulk else loops[0].iter
        site0 = exts[0].site if bulk else loops[0].site
        mine = A('self', 'assets')
        setd = T.t_sub(('call', ('ext', 'SET'), (u,), ()), ('call', ('ext', 'SET'), (mine,), ()))
        forms = [('call', ('ext', 'LIST'), (setd,), ()), setd, ('call', ('ext', 'SORTED'), (setd,), ()),
                 ('call', ('ext', 'SORTED'), (('call', ('ext', 'LIST'), (setd,), ()),), ())]
        good = any(T.teq(it, f) for f in forms)
        if not good and it[0] == 'comp' and len(it[3]) == 1 and it[3][0][1] == u and len(it[3][0][2]) == 1:
            cnd = it[3][0][2][0]
            good = cnd == ('not', ('cmp', 'in', it[3][0][0][0], mine)) and it[2] == it[3][0][0][0]
        positional = any(s[0] == 'slice' or (s[0] == 'call' and s[1] == ('ext', 'LEN')) for s in T.subterms(it))
        if good:
            ctx.holds('C16.S4', 'exactly the universe members not yet tracked are added (membership decided per asset)', site0)
        elif positional:
            ctx.violation('C16.S4', 'exactly the universe members not yet tracked are added (membership decided per asset)', site0,
                          'new assets are selected by position (%s): wrong whenever entry order differs from the universe\'s listing order' % fmt(it)[:120], key='C16.S4|membership')
        else:
            ctx.undecided('C16.S4', 'new-asset selection is one of the tabled idioms (set difference / not-in filter)', site0, fmt(it)[:160])
        if bulk:
            ctx.holds('C16.S4', 'every new member is appended once (list.extend)', site0)
        else:
            e, l = apps[0]
            ok = len(l) == 1 and e.value[2][1:] == (('elem', loops[0].iter, loops[0].id),) and all(b.outcome == 'fall' and not b.conds for b in loops[0].paths)
            ctx.require(ok, 'C16.S4', 'every new member is appended once', e.site, key='C16.S4|append')
    else:
        ctx.undecided('C16.S4', 'update_assets = one universe query, one loop, one append', fn.site(), '%d queries, %d loops, %d appends' % (len(uni), len(loops), len(apps)))
    # the tracked list may be shared with collaborators (the buffers are constructed on the very same list object): an append through any alias counts
    aliases = {A('self', 'assets')}
    for ip in normal(summarise(ctx, 'Signal.__init__', policy=default_policy)):
        mine = [w for w in heap_writes(ip, 'assets') if w.loc == A('self', 'assets')]
        holder = {}
        for w in heap_writes(ip):
            if w.loc[0] == 'attr' and w.loc[1] == V('self') and w.value is not None and w.value[0] == 'call' and w.value[1][0] == 'ctor':
                holder[w.value[1][1]] = w.loc
        for e in ip.flat_events():
            if e.kind == 'call' and (e.how or '').startswith('ctor:') and mine:
                cname = e.how[5:]
                for pname, val in e.args.items():
                    if val is mine[-1].value or val == mine[-1].value:
                        # does the constructor keep the very list it was given?
                        for cp_ in normal(summarise(ctx, cname + '.__init__', policy=no_inline)):
                            for w in heap_writes(cp_):
                                if w.value == V(pname) and w.loc[0] == 'attr' and w.loc[1] == V('self'):
                                    for h in [x for x in heap_writes(ip) if x.value is not None and x.value[0] == 'call' and any(c == cname + '.__init__' for c in e.callee)
                                              and fmt(x.value).startswith(cname + '(')]:
                                        aliases.add(('attr', h.loc, w.loc[2]))
    ps2 = normal(summarise(ctx, 'Signal.update_assets', policy=lambda a, b, d: d <= 8 and (default_policy(a, b, d) or b.path.startswith('qstrader/signals/'))))
    for p2 in ps2:
        for lp in [e for e in p2.events if e.kind == 'loop']:
            for b in lp.paths:
                n_app = [e for e in b.flat_events() if e.kind == 'write' and e.how in ('mut:append', 'mut:extend', 'mut:insert') and e.loc in aliases]
                if any(e.kind == 'write' and e.how == 'mut:append' and e.loc == A('self', 'assets') for e in b.flat_events()) or len(n_app) > 0:
                    ctx.require(len(n_app) == 1, 'C16.S4', 'a new member enters the tracked list exactly once, counting every alias of that list', n_app[-1].site if n_app else lp.site,
                                'the list object is written %d times per new member: %s' % (len(n_app), ['%s at %s' % (fmt(e.loc), e.site) for e in n_app]),
                                key='C16.S4|append-alias')
    ctx.note('C16.S4: aliases of the tracked asset list: %s' % sorted(fmt(a) for a in aliases))
    # a new asset starts with an empty window: buffers created on first append are fresh deques (S2 writer) and nothing back-fills them
    qn = 'AssetPriceBuffers.append'
    ps = summarise(ctx, qn, policy=default_policy)
    newp = [p for p in normal(ps) if any(c[0] == 'cmp' and c[1] == 'in' and not v for c, v, _ in p.conds)]
    ctx.require(len(newp) >= 1, 'C16.S4', 'buffers for an unseen asset are created on its first observation', ctx.fn(qn).site(), key='C16.S4|create-on-first')
    for p in newp:
        # whatever creates the new asset's buffers on this path (an update with a dict comprehension, element assignments in a loop): every deque built is empty
        made = []
        for w in heap_writes(p, 'prices'):
            if w.how in ('mut:append', 'mut:appendleft') or w.value is None:
                continue            # the observation itself being appended
            made += [s_ for s_ in T.subterms(w.value) if s_[0] == 'call' and s_[1] == ('ext', 'collections.deque')]
        if not made:
            ctx.undecided('C16.S4', 'the new asset\'s buffers are fresh, empty deques', ctx.fn(qn).site(), 'no deque construction found on the first-observation path')
        else:
            seeded = [d_ for d_ in made if d_[2] and d_[2][0] not in (('list', ()), ('tuple', ()))]
            ctx.require(not seeded, 'C16.S4', 'the new asset\'s buffers are fresh, empty deques', ctx.fn(qn).site(), [fmt(d_)[:100] for d_ in seeded], key='C16.S4|fresh')
    reach = ctx.M.reachable([f.qn for f in ctx.M.funcs.values() if f.path.startswith('qstrader/signals/')])
    for q in ('CSVDailyBarDataSource.get_assets_historical_closes', 'BacktestDataHandler.get_assets_historical_range_close_price'):
        if q in ctx.M.funcs:
            ctx.require(q not in reach, 'C16.S4', 'signals never read a historical price range (%s)' % q, None, key='C16.S4|history|%s' % q)
    # price guard
    ctx.require(len(raising(ps)) >= 1, 'C16.S4', 'non-positive prices are rejected by the buffers', ctx.fn(qn).site(), key='C16.S4|guard')
