"""C16 - signals equal their definitions over the trailing window (DESIGN C16: S1 cadence, S2 key/window agreement, S3 parameter slots, S4 empty window)."""
import ast

from .. import terms as T
from ..lib import (summarise, heap_writes, V, A, normal, raising, cond_str, loc_attr, nested_events, no_inline, props_only, writers_of_attr, calls_named, as_len_test, len_range_of, strip_ndarray)
from ..symex import Valuation, Undecided, default_policy
from ..terms import fmt, ZERO, num

MID = 'BacktestDataHandler.get_asset_latest_mid_price'


def check(ctx):
    ctx.sub(cadence, 'C16.S1')
    ctx.sub(s2_keys)
    ctx.sub(s3_slots)
    ctx.sub(s4_entry)
    from . import c19
    ctx.sub(c19.s1_membership)      # "an asset that enters a dynamic universe later": the universe reports it from its entry instant on, statelessly


# ------------------------------------------------------------------------------------------------ S1
def run_loop_table(ctx):
    """Decision table of the body of BacktestTradingSession.run's event loop (shared with C14).
    -> list of (valuation dict, [action names in order]) ; raises Undecided when a test is not decidable from the atoms."""
    fn = ctx.fn('BacktestTradingSession.run')
    out = []
    import itertools
    marks = {'SimulatedBroker.update': 'broker.update', 'SignalsCollection.update': 'signals.update', 'QuantTradingSystem.__call__': 'qts',
             'BacktestTradingSession._update_equity_curve': 'equity'}
    from fractions import Fraction as Fr
    # the burn-in ordering, each with concrete instants (in days) so that tests computed FROM the two instants (dates, differences) are decided too:
    # the same calendar day and different days are both represented
    burns = [(None, None), ('<', (Fr(80500, 800), Fr(80792, 800))), ('<', (Fr(80700, 800), Fr(80800, 800))), ('=', (Fr(80700, 800), Fr(80700, 800))),
             ('>', (Fr(80700, 800), Fr(80500, 800))), ('>', (Fr(81300, 800), Fr(80700, 800)))]
    for sig_none, et, (burn, inst), reb, pr in itertools.product([True, False], ['market_open', 'market_close', 'pre_market', 'post_market'], burns,
                                                                 [True, False], [True, False]):
        el = 'elem(self.sim_engine)'
        facts = {'settings.PRINT_EVENTS': pr, 'results': False,
                 'BacktestTradingSession._is_rebalance_event(self, %s.ts)' % el: reb, '%s.ts in self.rebalance_schedule' % el: reb}
        order = {}
        nums = {}
        if burn:
            order[('%s.ts' % el, 'self.burn_in_dt')] = burn
            nums = {'%s.ts' % el: inst[0], 'self.burn_in_dt': inst[1]}
        val = Valuation(order=order, facts=facts, isnone={'self.signals': sig_none, 'self.burn_in_dt': burn is None}, strs={'%s.event_type' % el: et}, nums=nums)

        def pol(caller, callee, depth):
            # private helpers of the session (burn-in tests etc.) are seen through; the four marked actions stay call events
            return default_policy(caller, callee, depth) and callee.qn not in marks and callee.qn != 'BacktestTradingSession._is_rebalance_event'
        from ..symex import SymEx
        sx = SymEx(ctx.M, policy=pol, oracle=val, skip_print_guards=False)
        ps = sx.run_entry(fn)
        ctx.paths_explored += len(ps)
        nps = [p for p in ps if p.outcome in ('fall', 'return')]
        acts = set()
        for p in nps:
            loops = [e for e in p.events if e.kind == 'loop' and fmt(e.iter) == 'self.sim_engine']
            if len(loops) != 1:
                raise Undecided('run has one loop over self.sim_engine (found %d)' % len(loops))
            for b in loops[0].paths:
                seq = []
                for e in b.flat_events():
                    if e.kind == 'call':
                        for c in e.callee:
                            if c in marks:
                                a = e.args.get('dt')
                                seq.append((marks[c], fmt(a) if a is not None else None))
                und = [c for c, v, s in b.conds if T.tkey(c) not in ()]
                acts.add((tuple(seq), b.outcome))
        out.append((dict(signals=not sig_none, event=et, burn_in=burn, rebalance=reb, print_events=pr,
                         instants=('event at day %s, burn-in at day %s' % (float(inst[0]), float(inst[1]))) if inst else None), sorted(acts), sorted(set(val.unknown))))
    return out


def cadence(ctx, rule):
    fn = ctx.fn('BacktestTradingSession.run')
    table = run_loop_table(ctx)
    bad = 0
    n = 0
    for v, acts, unknown in table:
        n += 1
        if len(acts) != 1:
            ctx.undecided(rule, 'the event loop of run is decided by (signals, event type, burn-in ordering, schedule membership)', fn.site(),
                          '%s -> %d outcomes; undecided tests: %s' % (v, len(acts), unknown[:4]))
            return
        seq, outcome = acts[0]
        got = [a for a, arg in seq if a == 'signals.update']
        exp = 1 if (v['signals'] and v['event'] == 'market_close') else 0
        if len(got) != exp:
            bad += 1
            ctx.violation(rule, 'signals are updated exactly once per market close and at no other event', fn.site(),
                          'valuation %s: %d signal updates, expected %d' % (v, len(got), exp), key='%s|cadence' % rule)
        for a, arg in seq:
            if a == 'signals.update' and arg != 'elem(self.sim_engine).ts':
                ctx.violation(rule, 'signals are updated with the event time', fn.site(), 'dt=%s' % arg, key='%s|cadence-dt' % rule)
    if not bad:
        ctx.holds(rule, 'signals.update(dt) runs once per event iff signals are configured and the event is a market close (%d valuations)' % n, fn.site())
    # inside the collection: every signal first learns the universe, then every tracked asset gets one append of the mid price at dt
    qn = 'SignalsCollection.update'
    f2 = ctx.fn(qn)
    ps = summarise(ctx, qn, policy=default_policy)
    nps = normal(ps)
    if not ctx.require(len(nps) == 1 if len(nps) == 1 else None, rule, 'SignalsCollection.update is straight-line', f2.site(), [cond_str(p) for p in nps]):
        return
    p = nps[0]
    seen_append = False
    upd = app = 0
    for e, loops, conds in nested_events(p):
        if e.kind == 'call' and 'Signal.update_assets' in e.callee:
            upd += 1
            ctx.require(not seen_append, rule, 'universes are refreshed before any price is appended', e.site, key='%s|order' % rule)
            ctx.require(e.args.get('dt') == V('dt') and len(loops) == 1 and fmt(loops[0][0].iter) in ('self.signals.items()', 'self.signals.values()', 'self.signals')
                        and not conds, rule, 'every signal refreshes its asset list at dt', e.site, key='%s|update-assets' % rule)
        if e.kind == 'call' and 'Signal.append' in e.callee:
            app += 1
            seen_append = True
            price = e.args.get('price')
            asset = e.args.get('asset')
            ok = price is not None and price[0] == 'call' and price[1] == ('fn', MID) and price[2][1] == V('dt') and price[2][2] == asset
            ctx.require(ok, rule, 'the observation appended is the mid price of that asset at dt', e.site, fmt(price)[:120] if price else None, key='%s|price' % rule)
            ok = len(loops) == 2 and fmt(loops[0][0].iter) in ('self.signals.items()', 'self.signals.values()', 'self.signals') and fmt(loops[1][0].iter).endswith('.assets') and not conds
            ctx.require(ok, rule, 'one append for every tracked asset of every signal, unconditionally', e.site, [fmt(l[0].iter) for l in loops], key='%s|append-loop' % rule)
            ctx.require(asset == ('elem', loops[1][0].iter, loops[1][0].id) if len(loops) == 2 else None, rule, 'the asset appended is the loop asset', e.site, key='%s|append-asset' % rule)
            for l, b in loops:
                ctx.require(all(x.outcome == 'fall' for x in l.paths), rule, 'the append loops never break or skip', l.site, key='%s|append-break' % rule)
    ctx.require(upd == 1 and app == 1, rule, 'one refresh site and one append site in SignalsCollection.update', f2.site(), '%d refresh, %d append' % (upd, app),
                key='%s|sites' % rule)
    # Signal.append forwards to the buffers unchanged
    ps = summarise(ctx, 'Signal.append', policy=no_inline)
    for p in normal(ps):
        cs = [e for e in p.flat_events() if e.kind == 'call' and 'AssetPriceBuffers.append' in e.callee]
        ok = len(cs) == 1 and cs[0].args.get('asset') == V('asset') and cs[0].args.get('price') == V('price')
        ctx.require(ok, rule, 'Signal.append forwards (asset, price) to its buffers once', cs[0].site if cs else ctx.fn('Signal.append').site(), key='%s|forward' % rule)
    # buffers: one append per lookback of the asset
    ps = summarise(ctx, 'AssetPriceBuffers.append', policy=default_policy)
    for p in normal(ps):
        n_app = 0
        for e, loops, conds in nested_events(p):
            if e.kind == 'write' and e.how == 'mut:append' and loc_attr(e.loc) == 'prices':
                n_app += 1
                key = e.loc[2]
                lk = ('elem', loops[-1][0].iter, loops[-1][0].id) if loops else None
                ok = len(loops) == 1 and fmt(loops[0][0].iter) == 'self.lookbacks' and key == ('fmt', ('str', '%s_%s'), ('tuple', (V('asset'), lk))) \
                    and e.value[2][1:] == (V('price'),) and all(b.outcome == 'fall' and not b.conds for b in loops[0][0].paths)
                ctx.require(ok, rule, 'each price is appended once to every lookback buffer of that asset [%s]' % cond_str(p)[:60], e.site, fmt(e.loc)[:120],
                            key='%s|buffer-append' % rule)
        ctx.require(n_app == 1, rule, 'one buffer-append site per observation [%s]' % cond_str(p)[:60], ctx.fn('AssetPriceBuffers.append').site(), n_app, key='%s|buffer-sites' % rule)


# ------------------------------------------------------------------------------------------------ S2
def _offset(t, base):
    """k such that t == base + k (k a number), else None"""
    d = T.t_sub(t, base)
    return d[1] if d[0] == 'num' else None


def s2_keys(ctx):
    # writer: '<asset>_<lookback>' -> deque(maxlen=lookback), a fresh deque per key
    qn = 'AssetPriceBuffers._create_single_asset_prices_buffer_dict'
    ps = summarise(ctx, qn, policy=default_policy)
    ok = False
    if len(ps) == 1 and ps[0].value is not None and ps[0].value[0] == 'comp' and ps[0].value[1] == 'dict':
        c = ps[0].value
        gens = c[3]
        if len(gens) == 1 and fmt(gens[0][1]) == 'self.lookbacks' and not gens[0][2]:
            bv = gens[0][0][0]
            k, v = c[2][1]
            ok = k == ('fmt', ('str', '%s_%s'), ('tuple', (V('asset'), bv))) and v[0] == 'call' and v[1] == ('ext', 'collections.deque') and dict(v[3]).get('maxlen') == bv and not v[2]
    ctx.require(ok, 'C16.S2', "buffers are keyed '<asset>_<lookback>' with a fresh deque(maxlen=lookback) per key", ctx.fn(qn).site(),
                fmt(ps[0].value)[:200] if ps and ps[0].value else None, key='C16.S2|writer')
    table = {'MomentumSignal': ('_cumulative_return', 1, 'returns'), 'VolatilitySignal': ('_annualised_vol', 1, 'returns'), 'SMASignal': ('_simple_moving_average', 0, 'prices')}
    for cname, (reader, want, kind) in table.items():
        c = ctx.cls(cname)
        init = c.methods.get('__init__')
        bump = 0
        if init is not None:
            ps = summarise(ctx, init, policy=no_inline)
            cs = [e for p in normal(ps) for e in p.flat_events() if e.kind == 'call' and 'Signal.__init__' in e.callee]
            if not ctx.require(len(cs) == 1 if len(cs) == 1 else None, 'C16.S2', '%s.__init__ delegates to Signal.__init__ once' % cname, init.site()):
                continue
            lb = cs[0].args.get('lookbacks')
            if lb == V('lookbacks'):
                bump = 0
            elif lb is not None and lb[0] == 'comp' and lb[1] == 'list' and len(lb[3]) == 1 and lb[3][0][1] == V('lookbacks') and not lb[3][0][2]:
                bump = _offset(lb[2], lb[3][0][0][0])
            else:
                bump = None
        if not ctx.require(bump is not None if bump is not None else None, 'C16.S2', '%s passes lookback + k to the buffers' % cname, init.site() if init else None):
            continue
        rf = ctx.fn('%s.%s' % (cname, reader))
        ps = summarise(ctx, rf, policy=default_policy)
        offs = set()
        for p in ps:
            ts = list(T.subterms(p.value)) if p.value is not None else []
            for c_, _, _ in p.conds:
                ts += list(T.subterms(c_))
            for s in ts:
                if s[0] == 'sub' and s[1] == A(A('self', 'buffers'), 'prices'):
                    k = s[2]
                    if k[0] == 'fmt' and k[1] == ('str', '%s_%s') and k[2][0] == 'tuple' and k[2][1][0] == V('asset'):
                        offs.add(_offset(k[2][1][1], V('lookback')))
                    else:
                        offs.add('?')
        if not ctx.require(len(offs) == 1 and '?' not in offs if (offs and '?' not in offs) else None, 'C16.S2', "%s reads the buffer '<asset>_<lookback + k>'" % cname, rf.site(), str(offs)):
            continue
        rk = offs.pop()
        ctx.require(rk == bump, 'C16.S2', '%s: the reader\'s key offset equals the window bump of the constructor' % cname, rf.site(),
                    'constructor stores lookback+%s, reader looks up lookback+%s' % (bump, rk), key='C16.S2|%s|agree' % cname)
        ctx.require(bump == want, 'C16.S2', '%s keeps N%s prices for an N-period %s' % (cname, '+1' if want else '', 'signal of returns' if want else 'average'), rf.site(),
                    'window is lookback+%s' % bump, key='C16.S2|%s|window' % cname)
        ctx.sample({'rule': 'C16.S2', 'signal': cname, 'constructor_bump': str(bump), 'reader_offset': str(rk)})
    # Signal.__init__ hands the (bumped) lookbacks to the buffers unchanged
    ps = summarise(ctx, 'Signal._create_asset_price_buffers', policy=no_inline)
    for p in normal(ps):
        cs = [e for e in p.flat_events() if e.kind == 'call' and 'AssetPriceBuffers.__init__' in e.callee]
        ok = len(cs) == 1 and cs[0].args.get('lookbacks') == A('self', 'lookbacks')
        ctx.require(ok, 'C16.S2', 'the buffers are created with the signal\'s lookbacks', ctx.fn('Signal._create_asset_price_buffers').site(), key='C16.S2|buffers-lookbacks')
    ws = writers_of_attr(ctx.M, 'lookbacks')
    ctx.require(all(w.fn.name == '__init__' and w.how.startswith('assign:field') for w in ws), 'C16.S2', 'lookbacks are set only by constructors', ws[0].where if ws else None,
                [w.fn.qn for w in ws], key='C16.S2|lookbacks-writers')


# ------------------------------------------------------------------------------------------------ S3
def _returns_of(buf):
    s = ('call', ('ext', 'pandas.Series'), (buf,), ())
    r = ('call', ('meth', 'pct_change'), (s,), ())
    r = ('call', ('meth', 'dropna'), (r,), ())
    return ('call', ('meth', 'to_numpy'), (r,), ())


def s3_slots(ctx):
    def buf(k):
        return ('sub', A(A('self', 'buffers'), 'prices'), ('fmt', ('str', '%s_%s'), ('tuple', (V('asset'), T.t_add(V('lookback'), num(k))))))
    # volatility: population std of the simple returns x sqrt(252), 0 while no return exists
    qn = 'VolatilitySignal._annualised_vol'
    fn = ctx.fn(qn)
    ps = summarise(ctx, qn, policy=default_policy)
    r = _returns_of(buf(1))
    r0 = strip_ndarray(r)
    for p in ps:
        if p.outcome != 'return':
            ctx.violation('C16.S3', 'volatility never raises', fn.site(), key='C16.S3|vol|raise')
            continue
        lo, hi, seen = len_range_of(p, r0, norm=strip_ndarray)
        if not seen:
            ctx.undecided('C16.S3', 'volatility branches on whether a return exists yet', fn.site(), cond_str(p)[:200])
            continue
        if p.value == ZERO:
            # 0 is right with no return, and also with exactly one (the population deviation of a single value is 0)
            ctx.require(hi is not None and hi <= 1, 'C16.S3', 'volatility is 0 only while at most one return exists', fn.site(),
                        'returns 0 for windows of %d..%s returns' % (lo, hi if hi is not None else 'any number of'), key='C16.S3|vol|warmup')
            continue
        if not ctx.require(lo >= 1, 'C16.S3', 'volatility is 0 while no return exists', fn.site(), fmt(p.value)[:120], key='C16.S3|vol|warmup'):
            continue
        v = p.value
        stds = [s for s in T.subterms(v) if s[0] == 'call' and s[1][0] == 'ext' and s[1][1] in ('STD', 'STD1', 'NANSTD', 'VAR')]
        meth_std = [s for s in T.subterms(v) if s[0] == 'call' and s[1] == ('meth', 'std')]
        if meth_std:
            dd = dict(meth_std[0][3]).get('ddof')
            recv = meth_std[0][2][0]
            is_ndarray = (recv[0] == 'call' and recv[1] in (('meth', 'to_numpy'), ('ext', 'ARRAY'))) or (recv[0] == 'attr' and recv[2] == 'values')
            if is_ndarray:
                ctx.require(dd is None or dd == ZERO, 'C16.S3', 'volatility uses the population standard deviation (ndarray.std, ddof=0)', fn.site(), fmt(dd) if dd else None, key='C16.S3|vol|ddof')
                exp = T.t_mul(('call', ('ext', 'SQRT'), (num(252),), ()), meth_std[0])
                ctx.require(strip_ndarray(recv) == r0 and T.teq(v, exp), 'C16.S3', 'volatility = std(simple returns of the window) x sqrt(252)', fn.site(), fmt(v)[:200], key='C16.S3|vol|formula')
            else:
                ctx.require(dd == ZERO, 'C16.S3', 'volatility uses the population standard deviation', fn.site(), 'Series.std() defaults to ddof=1 (sample deviation)', key='C16.S3|vol|ddof')
                exp = T.t_mul(('call', ('ext', 'SQRT'), (num(252),), ()), meth_std[0])
                ctx.require(strip_ndarray(recv) == r0 and T.teq(v, exp), 'C16.S3', 'volatility = std(simple returns of the window) x sqrt(252)', fn.site(),
                            'deviation taken over %s' % fmt(recv)[:160], key='C16.S3|vol|formula')
        elif len(stds) == 1 and stds[0][1][1] == 'STD':
            dd = dict(stds[0][3]).get('ddof')
            ctx.require(dd is None or dd == ZERO, 'C16.S3', 'volatility uses the population standard deviation (ddof=0)', fn.site(), 'ddof=%s' % (fmt(dd) if dd else None),
                        key='C16.S3|vol|ddof')
            exp = T.t_mul(('call', ('ext', 'SQRT'), (num(252),), ()), ('call', ('ext', 'STD'), (r0,), tuple(stds[0][3])))
            ctx.require(T.teq(strip_ndarray(v), exp), 'C16.S3', 'volatility = std(simple returns of the window) x sqrt(252)', fn.site(), fmt(v)[:200], key='C16.S3|vol|formula')
        elif stds:
            ctx.violation('C16.S3', 'volatility uses the population standard deviation', fn.site(), fmt(stds[0])[:80], key='C16.S3|vol|ddof')
        else:
            ctx.undecided('C16.S3', 'volatility pipeline is one of the tabled idioms', fn.site(), fmt(v)[:200])
    # momentum: last/first - 1 over the window, via compounding the simple returns
    qn = 'MomentumSignal._cumulative_return'
    fn = ctx.fn(qn)
    ps = summarise(ctx, qn, policy=default_policy)
    for p in ps:
        if p.outcome != 'return':
            ctx.violation('C16.S3', 'momentum never raises', fn.site(), key='C16.S3|mom|raise')
            continue
        lo, hi, seen = len_range_of(p, r0, norm=strip_ndarray)
        if not seen:
            ctx.undecided('C16.S3', 'momentum branches on whether a return exists yet', fn.site(), cond_str(p)[:200])
            continue
        if p.value == ZERO:
            ctx.require(hi == 0, 'C16.S3', 'momentum is 0 only while no return exists', fn.site(),
                        'returns 0 for windows of %d..%s returns' % (lo, hi if hi is not None else 'any number of'), key='C16.S3|mom|warmup')
            continue
        if not ctx.require(lo >= 1, 'C16.S3', 'momentum is 0 while no return exists', fn.site(), fmt(p.value)[:120], key='C16.S3|mom|warmup'):
            continue
        v = p.value
        arr = ('call', ('ext', 'ARRAY'), (r,), ())
        alts = []
        for rr in (arr, r):
            cp = ('call', ('ext', 'CUMPROD'), (T.t_add(num(1), rr),), ())
            alts.append(T.t_sub(('sub', cp, num(-1)), num(1)))
            alts.append(('sub', T.t_sub(cp, num(1)), num(-1)))
            alts.append(T.t_sub(('call', ('ext', 'PROD'), (T.t_add(num(1), rr),), ()), num(1)))
        b = buf(1)
        alts.append(T.t_sub(T.t_div(('sub', b, num(-1)), ('sub', b, num(0))), num(1)))
        if any(T.teq(strip_ndarray(v), strip_ndarray(a)) for a in alts):
            ctx.holds('C16.S3', 'momentum = compounded simple returns of the window - 1 (= last/first - 1)', fn.site())
        else:
            prods = [s for s in T.subterms(v) if s[0] == 'call' and s[1][0] == 'ext' and s[1][1] in ('CUMPROD', 'PROD', 'CUMSUM', 'SUM', 'MEAN')]
            if prods and prods[0][1][1] in ('CUMSUM', 'SUM', 'MEAN'):
                ctx.violation('C16.S3', 'momentum compounds the returns (product), it does not add them', fn.site(), fmt(v)[:200], key='C16.S3|mom|formula')
            elif prods:
                ctx.violation('C16.S3', 'momentum = prod(1 + r) - 1 over all returns of the window, taken at the last element', fn.site(), fmt(v)[:200], key='C16.S3|mom|formula')
            else:
                ctx.undecided('C16.S3', 'momentum pipeline is one of the tabled idioms', fn.site(), fmt(v)[:200])
    # moving average: mean of the prices available
    qn = 'SMASignal._simple_moving_average'
    fn = ctx.fn(qn)
    ps = summarise(ctx, qn, policy=default_policy)
    b0 = buf(0)
    for p in ps:
        if p.outcome != 'return':
            continue
        v = p.value
        ln = ('call', ('ext', 'LEN'), (b0,), ())
        sm = ('call', ('ext', 'SUM'), (b0,), ())
        if T.teq(v, ('call', ('ext', 'MEAN'), (b0,), ())) or T.teq(v, T.t_div(sm, ln)):
            ctx.holds('C16.S3', 'moving average = mean of the prices in the window (shorter window while warming up)', fn.site())
        elif any(s[0] == 'call' and s[1][0] == 'ext' and s[1][1] in ('SUM', 'MEAN', 'MEDIAN', 'NANMEAN') for s in T.subterms(v)):
            ctx.violation('C16.S3', 'moving average = mean of the prices in the window (shorter window while warming up)', fn.site(),
                          'computed as %s' % fmt(v)[:160], key='C16.S3|sma|formula')
        else:
            ctx.undecided('C16.S3', 'moving-average pipeline is one of the tabled idioms', fn.site(), fmt(v)[:200])
    for cname, reader in (('MomentumSignal', '_cumulative_return'), ('VolatilitySignal', '_annualised_vol'), ('SMASignal', '_simple_moving_average')):
        ps = summarise(ctx, '%s.__call__' % cname, policy=no_inline)
        for p in ps:
            v = p.value
            ok = p.outcome == 'return' and v is not None and v[0] == 'call' and v[1] == ('fn', '%s.%s' % (cname, reader)) and v[2][1:] == (V('asset'), V('lookback'))
            ctx.require(ok, 'C16.S3', '%s(asset, lookback) returns the reader\'s value unmodified' % cname, ctx.fn('%s.__call__' % cname).site(), fmt(v)[:100] if v else None,
                        key='C16.S3|%s|call' % cname)


# ------------------------------------------------------------------------------------------------ S4
def s4_entry(ctx):
    qn = 'Signal.update_assets'
    fn = ctx.fn(qn)
    ps = summarise(ctx, qn, policy=no_inline)
    nps = normal(ps)
    if not ctx.require(len(nps) == 1 if len(nps) == 1 else None, 'C16.S4', 'Signal.update_assets is straight-line', fn.site()):
        return
    p = nps[0]
    uni = [e for e in p.flat_events() if e.kind == 'call' and any(c.endswith('.get_assets') for c in e.callee)]
    ctx.require(len(uni) == 1 and uni[0].args.get('dt') == V('dt') and uni[0].d.get('recv') == A('self', 'universe'), 'C16.S4',
                'the asset list is refreshed from the universe at dt', uni[0].site if uni else fn.site(), key='C16.S4|universe')
    loops = [e for e in p.events if e.kind == 'loop']
    apps = [(e, l) for e, l, c in nested_events(p) if e.kind == 'write' and e.how == 'mut:append' and loc_attr(e.loc) == 'assets']
    exts = [e for e in p.flat_events() if e.kind == 'write' and e.how == 'mut:extend' and loc_attr(e.loc) == 'assets']
    bulk = uni and not loops and not apps and len(exts) == 1 and exts[0].value[0] == 'call' and len(exts[0].value[2]) == 2
    if (uni and len(loops) == 1 and len(apps) == 1) or bulk:
        u = uni[0].result
        # L.extend(X) appends every element of X once, in order: the same as the loop `for a in X: L.append(a)`
        it = exts[0].value[2][1] if bulk else loops[0].iter
        site0 = exts[0].site if bulk else loops[0].site
        mine = A('self', 'assets')
        setd = T.t_sub(('call', ('ext', 'SET'), (u,), ()), ('call', ('ext', 'SET'), (mine,), ()))
        forms = [('call', ('ext', 'LIST'), (setd,), ()), setd, ('call', ('ext', 'SORTED'), (setd,), ()),
                 ('call', ('ext', 'SORTED'), (('call', ('ext', 'LIST'), (setd,), ()),), ())]
        good = any(T.teq(it, f) for f in forms)
        if not good and it[0] == 'comp' and len(it[3]) == 1 and it[3][0][1] == u and len(it[3][0][2]) == 1:
            cnd = it[3][0][2][0]
            good = cnd == ('not', ('cmp', 'in', it[3][0][0][0], mine)) and it[2] == it[3][0][0][0]
        positional = any(s[0] == 'slice' or (s[0] == 'call' and s[1] == ('ext', 'LEN')) for s in T.subterms(it))
        if good:
            ctx.holds('C16.S4', 'exactly the universe members not yet tracked are added (membership decided per asset)', site0)
        elif positional:
            ctx.violation('C16.S4', 'exactly the universe members not yet tracked are added (membership decided per asset)', site0,
                          'new assets are selected by position (%s): wrong whenever entry order differs from the universe\'s listing order' % fmt(it)[:120], key='C16.S4|membership')
        else:
            ctx.undecided('C16.S4', 'new-asset selection is one of the tabled idioms (set difference / not-in filter)', site0, fmt(it)[:160])
        if bulk:
            ctx.holds('C16.S4', 'every new member is appended once (list.extend)', site0)
        else:
            e, l = apps[0]
            ok = len(l) == 1 and e.value[2][1:] == (('elem', loops[0].iter, loops[0].id),) and all(b.outcome == 'fall' and not b.conds for b in loops[0].paths)
            ctx.require(ok, 'C16.S4', 'every new member is appended once', e.site, key='C16.S4|append')
    else:
        ctx.undecided('C16.S4', 'update_assets = one universe query, one loop, one append', fn.site(), '%d queries, %d loops, %d appends' % (len(uni), len(loops), len(apps)))
    # the tracked list may be shared with collaborators (the buffers are constructed on the very same list object): an append through any alias counts
    aliases = {A('self', 'assets')}
    for ip in normal(summarise(ctx, 'Signal.__init__', policy=default_policy)):
        mine = [w for w in heap_writes(ip, 'assets') if w.loc == A('self', 'assets')]
        holder = {}
        for w in heap_writes(ip):
            if w.loc[0] == 'attr' and w.loc[1] == V('self') and w.value is not None and w.value[0] == 'call' and w.value[1][0] == 'ctor':
                holder[w.value[1][1]] = w.loc
        for e in ip.flat_events():
            if e.kind == 'call' and (e.how or '').startswith('ctor:') and mine:
                cname = e.how[5:]
                for pname, val in e.args.items():
                    if val is mine[-1].value or val == mine[-1].value:
                        # does the constructor keep the very list it was given?
                        for cp_ in normal(summarise(ctx, cname + '.__init__', policy=no_inline)):
                            for w in heap_writes(cp_):
                                if w.value == V(pname) and w.loc[0] == 'attr' and w.loc[1] == V('self'):
                                    for h in [x for x in heap_writes(ip) if x.value is not None and x.value[0] == 'call' and any(c == cname + '.__init__' for c in e.callee)
                                              and fmt(x.value).startswith(cname + '(')]:
                                        aliases.add(('attr', h.loc, w.loc[2]))
    ps2 = normal(summarise(ctx, 'Signal.update_assets', policy=lambda a, b, d: d <= 8 and (default_policy(a, b, d) or b.path.startswith('qstrader/signals/'))))
    for p2 in ps2:
        for lp in [e for e in p2.events if e.kind == 'loop']:
            for b in lp.paths:
                n_app = [e for e in b.flat_events() if e.kind == 'write' and e.how in ('mut:append', 'mut:extend', 'mut:insert') and e.loc in aliases]
                if any(e.kind == 'write' and e.how == 'mut:append' and e.loc == A('self', 'assets') for e in b.flat_events()) or len(n_app) > 0:
                    ctx.require(len(n_app) == 1, 'C16.S4', 'a new member enters the tracked list exactly once, counting every alias of that list', n_app[-1].site if n_app else lp.site,
                                'the list object is written %d times per new member: %s' % (len(n_app), ['%s at %s' % (fmt(e.loc), e.site) for e in n_app]),
                                key='C16.S4|append-alias')
    ctx.note('C16.S4: aliases of the tracked asset list: %s' % sorted(fmt(a) for a in aliases))
    # a new asset starts with an empty window: buffers created on first append are fresh deques (S2 writer) and nothing back-fills them
    qn = 'AssetPriceBuffers.append'
    ps = summarise(ctx, qn, policy=default_policy)
    newp = [p for p in normal(ps) if any(c[0] == 'cmp' and c[1] == 'in' and not v for c, v, _ in p.conds)]
    ctx.require(len(newp) >= 1, 'C16.S4', 'buffers for an unseen asset are created on its first observation', ctx.fn(qn).site(), key='C16.S4|create-on-first')
    for p in newp:
        ups = [w for w in heap_writes(p, 'prices') if w.how == 'mut:update']
        ok = len(ups) == 1 and ups[0].value[2][1][0] == 'comp'
        ctx.require(ok, 'C16.S4', 'the new asset\'s buffers are fresh, empty deques', ups[0].site if ups else ctx.fn(qn).site(), key='C16.S4|fresh')
    reach = ctx.M.reachable([f.qn for f in ctx.M.funcs.values() if f.path.startswith('qstrader/signals/')])
    for q in ('CSVDailyBarDataSource.get_assets_historical_closes', 'BacktestDataHandler.get_assets_historical_range_close_price'):
        if q in ctx.M.funcs:
            ctx.require(q not in reach, 'C16.S4', 'signals never read a historical price range (%s)' % q, None, key='C16.S4|history|%s' % q)
    # price guard
    ctx.require(len(raising(ps)) >= 1, 'C16.S4', 'non-positive prices are rejected by the buffers', ctx.fn(qn).site(), key='C16.S4|guard')
