"""C12 - the simulation clock is strictly increasing and covers exactly business days (DESIGN C12: S1..S3)."""
from .. import terms as T
from ..lib import summarise, heap_writes, V, A, normal, raising, cond_str, writers_of_attr, time_of_day, time_of_day_ext, datetime_base, no_inline, kw
from ..symex import Valuation, SymEx, default_policy, Undecided
from ..terms import fmt, ZERO, num

CLS = 'DailyBusinessDaySimulationEngine'
BDAY = (('ext', 'pandas.tseries.offsets.BDay'), ('ext', 'pandas.tseries.offsets.BusinessDay'), ('ext', 'pandas.offsets.BDay'), ('ext', 'pandas.offsets.BusinessDay'))


def is_business_daily_range(t, start, end, normalized=None):
    """t is pd.date_range(start, end, freq=<business daily>) or pd.bdate_range(start, end) with the two bounds unmodified"""
    if t[0] != 'call' or t[1][0] != 'ext' or t[1][1] not in ('pandas.bdate_range', 'pandas.date_range'):
        # days produced some other way (hand-written stepping, filtering a calendar-day range, ...): not read by this rule
        return None, 'not a pandas business-day range: %s' % fmt(t)[:100]
    name = t[1][1]
    args, kws = list(t[2]), dict(t[3])
    s = args[0] if args else kws.get('start')
    e = args[1] if len(args) > 1 else kws.get('end')
    if s != start or e != end:
        return False, 'range bounds are %s .. %s, expected the unmodified %s .. %s' % (fmt(s) if s else None, fmt(e) if e else None, fmt(start), fmt(end))
    extra = set(kws) - {'start', 'end', 'freq', 'normalize'}
    if extra or len(args) > 2:
        return False, 'unexpected arguments %s' % sorted(extra)
    if normalized is True and not (name == 'pandas.bdate_range' and kws.get('normalize', T.TRUE) == T.TRUE) and kws.get('normalize') != T.TRUE:
        return False, 'dates must be normalised to midnight before they are stamped (bdate_range or normalize=True)'
    fr = kws.get('freq')
    if name == 'pandas.bdate_range':
        ok = fr is None or fr == ('str', 'B')
        return ok, 'freq=%s' % (fmt(fr) if fr else None)
    if name == 'pandas.date_range':
        ok = fr is not None and (fr == ('str', 'B') or (fr[0] == 'call' and fr[1] in BDAY and not fr[2] and not fr[3]))
        return ok, 'freq=%s' % (fmt(fr) if fr else None)
    return False, name


def day_relative_stamp(ts, day):
    """ts == midnight(day) + Timedelta(h, m)  ->  (h, m) when the midnight is exact, ('inexact', what) when the day keeps part of its own time of day, None if not of this form"""
    from .. import terms as T
    base, off = ts, (0, 0)
    inner = ts[2][0] if ts[0] == 'call' and ts[1] == ('ext', 'pandas.Timestamp') and ts[2] else ts
    if inner[0] == 'call' and inner[1] == ('ext', 'datetime.datetime.combine') and len(inner[2]) == 2 and not inner[3]:
        # combine(<the day's date>, <time of day>): the date drops the day's own clock completely; a literal time(h, m) is exact, the day's own .time() is what the
        # day inherited from the start of the range
        d_, t_ = inner[2]
        if d_ == ('call', ('meth', 'date'), (day,), ()):
            if t_[0] == 'call' and t_[1] == ('ext', 'datetime.time') and all(a_[0] == 'num' for a_ in t_[2]) and not t_[3]:
                hm = [int(a_[1]) for a_ in t_[2]] + [0, 0, 0, 0]
                return (hm[0], hm[1]) if not any(hm[2:]) else ('inexact', 'time(%s) carries seconds' % ', '.join(map(str, hm[:4])))
            if t_ in (('call', ('meth', 'time'), (day,), ()), ('call', ('meth', 'timetz'), (day,), ())):
                return ('inexact', 'the event is stamped with the day\'s own time of day, which the days inherit from the start of the range')
        return None
    day_relative_stamp.stripped = False
    if ts[0] != 'rat' and inner is not ts and inner[0] == 'rat' and not ts[2][1:]:
        ts = inner          # pd.Timestamp(<midnight of the day> + <offset>, tz=...): the zone is judged by the caller
    if ts[0] == 'rat':
        deltas = [s_ for s_ in T.subterms(ts) if s_[0] == 'call' and s_[1][0] == 'ext' and s_[1][1] in ('pandas.Timedelta', 'datetime.timedelta')]
        if len(deltas) != 1 or time_of_day(deltas[0]) is None:
            return None
        try:
            base = T.t_sub(ts, deltas[0])
        except Exception:
            return None
        off = time_of_day(deltas[0])
    # the same midnight as a datetime.datetime, or with its zone taken off (the wall clock of a UTC day is kept): still that midnight
    while base[0] == 'call' and ((base[1] == ('meth', 'to_pydatetime') and len(base[2]) == 1) or
                                 (base[1] == ('meth', 'tz_localize') and len(base[2]) == 2 and base[2][1] == T.NONE and not base[3])) if hasattr(T, 'NONE') else False:
        if base[1] == ('meth', 'tz_localize'):
            day_relative_stamp.stripped = True
        base = base[2][0]
    if base[0] == 'call' and base[1] in (('meth', 'normalize'), ('meth', 'floor')) and base[2] and base[2][0][0] == 'call' and base[2][0][1] == ('meth', 'tz_localize') \
            and len(base[2][0][2]) == 2 and not base[2][0][3] and fmt(base[2][0][2][1]) == 'None':
        day_relative_stamp.stripped = True
        base = (base[0], base[1], (base[2][0][2][0],) + tuple(base[2][1:]), base[3])
    if base == day:
        return ('inexact', 'the day is used with the time of day it inherits from the start of the range')
    if base[0] == 'call' and base[1] == ('meth', 'normalize') and base[2] == (day,):
        return off
    if base[0] == 'call' and base[1] == ('meth', 'floor') and base[2][:1] == (day,) and base[2][1:] in ((('str', 'D'),), (('str', 'd'),), (('str', '1D'),)):
        return off
    if base[0] == 'call' and base[1] == ('meth', 'replace') and base[2] == (day,):
        kws = dict(base[3])
        if any(v != T.ZERO for v in kws.values()) or not {'hour', 'minute'} <= set(kws):
            return None
        missing = [k for k in ('second', 'microsecond', 'nanosecond') if k not in kws]
        if missing:
            return ('inexact', 'replace(hour=0, minute=0) leaves the %s of the start\'s time of day in every stamp' % '/'.join(missing))
        return off
    return None


_SOUND_MEMOS = set()


def _dedupe_seqs(seqs, memos):
    """body paths of the day loop that differ only in whether a sound memo already held the stamp yield the same events: keep, of each, the one that computes"""
    best = {}
    for seq, cond in seqs:
        names = tuple(a for a, b, c in seq)
        score = sum(1 for a, b, c in seq if b is not None)
        if names not in best or score > best[names][0]:
            best[names] = (score, seq, cond)
    return [(seq, cond) for _, seq, cond in best.values()]


def clock_events(ctx):
    """decision table of __iter__ over the four flag combinations -> {(pre, post): [(event_type, (h, m)), ...]} and structural facts"""
    fn = ctx.fn(CLS + '.__iter__')
    out = {}
    facts = []
    for pre in (True, False):
        for post in (True, False):
            val = Valuation(facts={'self.pre_market': pre, 'self.post_market': post})
            sx = SymEx(ctx.M, policy=default_policy, oracle=val)
            ps = sx.run_entry(fn)
            ctx.paths_explored += len(ps)
            seqs = []
            for p in ps:
                loops = [e for e in p.events if e.kind == 'loop']
                top = [e for e in p.events if e.kind == 'yield']
                if len(loops) != 1 or top:
                    facts.append(('shape', 'one loop over the business days, no yield outside it', False, fn.site()))
                    continue
                lp = loops[0]
                it = fmt(lp.iter)
                facts.append(('iter', 'iterates self.business_days', it in ('self.business_days', 'ENUMERATE(self.business_days)'), lp.site))
                day = ('sub', ('elem', lp.iter, lp.id), num(1)) if it.startswith('ENUMERATE') else ('elem', lp.iter, lp.id)
                for b in lp.paths:
                    seq = []
                    if b.outcome != 'fall':
                        facts.append(('exit', 'no early exit from the day loop', False, lp.site))
                    for e in b.events:
                        if e.kind == 'yield':
                            v = e.value
                            if not (v[0] == 'new' and v[1] == 'SimulationEvent'):
                                seq.append(('?', None, fmt(v)[:80]))
                                continue
                            f = dict(v[2])
                            ts = f.get('ts')
                            tod = None
                            same_day = tz = False
                            if ts is not None and ts[0] == 'call' and ts[1] == ('ext', 'pandas.Timestamp') and ts[2]:
                                inner = ts[2][0]
                                tod = time_of_day_ext(inner)
                                base = datetime_base(inner)
                                if base is not None and len(base[2]) >= 3:
                                    same_day = base[2][:3] == (('attr', day, 'year'), ('attr', day, 'month'), ('attr', day, 'day'))
                                z = dict(ts[3]).get('tz')
                                tz = z in (('str', 'UTC'), ('ext', 'pytz.utc'), ('ext', 'pytz.UTC'), ('ext', 'datetime.timezone.utc'))
                            if tod is None and ts is not None:
                                # a stamp derived from the day itself: <midnight of the day> + Timedelta(h, m).  The business days carry the START's time of day
                                # (pd.date_range keeps it), so the day must first be brought to midnight completely: normalize()/floor('D'), or replace() of
                                # every component down to the nanosecond.  A partial replace keeps the seconds and below: stamps then miss HH:MM:00.
                                rel = day_relative_stamp(ts, day)
                                if rel is not None:
                                    tod = rel
                                    same_day = True
                                    # the zone: the day's own (UTC) unless the stamp was rebuilt from a zone-less midnight, which then must be given UTC again
                                    wrapped_ = ts[0] == 'call' and ts[1] == ('ext', 'pandas.Timestamp')
                                    tz = tz if wrapped_ and ('tz' in dict(ts[3]) or day_relative_stamp.stripped) else (not day_relative_stamp.stripped)
                            et = f.get('event_type')
                            seq.append((et[1] if et and et[0] == 'str' else '?', tod, (same_day, tz)))
                    seqs.append((seq, cond_str(b)))
            out[(pre, post)] = seqs
    return out, facts


def check(ctx):
    from ..lib import discarded_results
    ctx.sub(discarded_results, 'C12.S2', ('qstrader/simulation/',), 'the clock emits the events the code actually ordered')
    M = ctx.M
    from ..lib import one_shot_state
    ctx.sub(one_shot_state, 'C12.S1', CLS)          # the clock can be iterated again (same events every time)
    # ---- S1: the source of days
    ws = writers_of_attr(M, 'business_days')
    ctx.require(len(ws) == 1 and ws[0].fn.qn == CLS + '.__init__', 'C12.S1', 'business_days is written once, in the constructor', ws[0].where if ws else None,
                [w.fn.qn for w in ws], key='C12.S1|writer')
    ps = summarise(ctx, CLS + '.__init__', policy=default_policy)
    nps = normal(ps)
    for p in nps:
        w = [x for x in heap_writes(p, 'business_days')]
        st = [x for x in heap_writes(p, 'starting_day')]
        en = [x for x in heap_writes(p, 'ending_day')]
        ok = len(st) == 1 and st[0].value == V('starting_day') and len(en) == 1 and en[0].value == V('ending_day')
        ctx.require(ok, 'C12.S1', 'the clock keeps the given start and end unmodified', st[0].site if st else None, key='C12.S1|bounds')
        if ctx.require(len(w) == 1, 'C12.S1', 'business_days is computed once', w[0].site if w else None, key='C12.S1|once'):
            ok, why = is_business_daily_range(w[0].value, V('starting_day'), V('ending_day'))
            ctx.require(ok, 'C12.S1', 'the days are pd.date_range(start, end, freq=business day) over the unmodified range', w[0].site,
                        '%s: %s' % (fmt(w[0].value)[:160], why), key='C12.S1|range')
            ctx.sample({'rule': 'C12.S1', 'business_days': fmt(w[0].value)})
        for f_, name in (('pre_market', 'pre_market'), ('post_market', 'post_market')):
            x = heap_writes(p, f_)
            getter = ctx.cls(CLS).lookup(f_)
            if not x and getter is not None and getter.is_property:
                # the flag is kept somewhere else and read back through a property of the same name: what the property answers right after construction
                try:
                    from ..symex import State
                    st_ = State()
                    st_.heap = dict(p.heap)
                    vals = [q.value for q in SymEx(ctx.M, policy=default_policy).run(getter, self_term=V('self'), state=st_) if q.outcome == 'return']
                except Undecided as u:
                    vals = []
                if len(vals) == 1 and vals[0] == V(name):
                    ctx.holds('C12.S2', 'the %s flag is the constructor argument (read back through the property)' % name, getter.site())
                elif len(vals) == 1 and not any(s_[0] in ('attr', 'sub', 'call', 'havoc') for s_ in T.subterms(vals[0])):
                    ctx.violation('C12.S2', 'the %s flag is the constructor argument' % name, getter.site(), 'after construction the property answers %s' % fmt(vals[0])[:80],
                                  key='C12.S2|flag|%s' % name)
                else:
                    ctx.undecided('C12.S2', 'the %s flag is the constructor argument' % name, getter.site(), 'kept outside a field of that name: %s' % [fmt(v_)[:60] for v_ in vals][:2])
                continue
            ctx.require(len(x) == 1 and x[0].value == V(name), 'C12.S2', 'the %s flag is the constructor argument' % name, x[0].site if x else None, key='C12.S2|flag|%s' % name)
    # the event object carries the instant it was given
    for ip in summarise(ctx, 'SimulationEvent.__init__', policy=default_policy):
        if ip.outcome in ('fall', 'return'):
            w = [x for x in heap_writes(ip, 'ts')]
            ctx.require(len(w) == 1 and w[0].value == V('ts'), 'C12.S2', 'a SimulationEvent keeps the timestamp it is constructed with, unmodified', w[0].site if w else None,
                        [fmt(x.value)[:80] for x in w], key='C12.S2|event-ts')
    # ---- S3: end < start is rejected, = and > construct
    fn = ctx.fn(CLS + '.__init__')
    for rel, exp in (('<', 'raise'), ('=', 'ok'), ('>', 'ok')):
        val = Valuation(order={('ending_day', 'starting_day'): rel})
        ps = summarise(ctx, fn, policy=default_policy, oracle=val)
        outs = {('raise:' + p.state.exc[1]) if p.outcome == 'raise' else 'ok' for p in ps}
        want = {'raise:ValueError'} if exp == 'raise' else {'ok'}
        by_conv = {}
        for p in ps:
            by_conv.setdefault(getattr(p, 'convention', None), set()).add(('raise:' + p.state.exc[1]) if p.outcome == 'raise' else 'ok')
        conv_split = len(by_conv) > 1 and all(len(o_) == 1 for o_ in by_conv.values()) and len({next(iter(o_)) for o_ in by_conv.values()}) > 1
        if len(outs) > 1 and not val.unknown and exp == 'raise' and conv_split:
            # nothing else was consulted, and still one way of making the call is accepted (arguments handed over by keyword instead of by position, say)
            ctx.violation('C12.S3', 'an end earlier than the start is rejected with ValueError', fn.site(),
                          'outcomes %s: with the same ordering of the bounds one way of calling the constructor is refused and another is accepted' % sorted(outs), key='C12.S3|%s' % rel)
            continue
        if len(outs) > 1 and val.unknown:
            # the test is an arithmetic one on the distance between the bounds (whole days spanned, seconds, ...): the same table with instants as day numbers, the end
            # a fraction of a day, exactly one day and several days away from the start
            from fractions import Fraction as F_
            tab, unk = [], False
            for d_ in {'<': ('-1/2', '-1', '-37/10'), '=': ('0',), '>': ('1/2', '1', '23/10')}[rel]:
                nv = Valuation(order={('ending_day', 'starting_day'): rel}, nums={'starting_day': F_(10), 'ending_day': F_(10) + F_(d_)})
                qs = summarise(ctx, fn, policy=default_policy, oracle=nv)
                o_ = {('raise:' + q.state.exc[1]) if q.outcome == 'raise' else 'ok' for q in qs}
                if len(o_) != 1:
                    unk = True
                    break
                tab.append((d_, next(iter(o_))))
            bad_ = [(d_, o_) for d_, o_ in tab if {o_} != want]
            if not unk and bad_:
                ctx.violation('C12.S3', 'an end earlier than the start is rejected with ValueError' if exp == 'raise' else 'end %s start constructs' % rel, fn.site(),
                              'READ: with the end %s day(s) from the start the constructor %s (test: %s)' % (bad_[0][0], 'accepts the bounds' if bad_[0][1] == 'ok' else 'refuses with ' + bad_[0][1][6:],
                                                                                                      sorted(set(val.unknown))[0][:100]), key='C12.S3|%s' % rel)
                continue
            if not unk:
                ctx.undecided('C12.S3', 'construction is decided by the ordering of start and end alone', fn.site(),
                              'end %s start is tested through %s; at the distances %s the outcome is the stated one, which is a table, not a proof' % (rel, sorted(set(val.unknown))[0][:100], [d_ for d_, _ in tab]))
                continue
        if len(outs) > 1 and exp == 'ok' and not val.unknown:
            # every test on the way was decided by the ordering, and still some path refuses with a raise the package itself wrote (after catching an error of a
            # lookup, say): the bounds are in order and the constructor has a way of saying they are not
            from ..lib import read_marker
            own_ = [p for p in ps if p.outcome == 'raise' and p.state.exc and p.state.exc[0] == 'raise' and p.state.exc[1] == 'ValueError' and read_marker(ctx, p)]
            if own_:
                ctx.violation('C12.S3', 'an end %s the start is accepted' % {'=': 'equal to', '>': 'later than'}[rel], own_[0].state.exc[2],
                              'READ: with the bounds in order a path of the constructor reaches its own `raise ValueError` (%s), on no other condition than an error caught on the way'
                              % own_[0].state.exc[2], key='C12.S3|%s' % rel)
                continue
        if len(outs) > 1:
            # the outcome depends on something besides the ordering of the two bounds (e.g. whether the computed range is empty): not decided here
            ctx.undecided('C12.S3', 'construction is decided by the ordering of start and end alone', fn.site(), 'end %s start: outcomes %s depend on %s' % (rel, sorted(outs), sorted(set(val.unknown))[:3]))
            continue
        ctx.require(outs == want, 'C12.S3', 'an end %s the start %s' % ({'<': 'earlier than', '=': 'equal to', '>': 'later than'}[rel], 'is rejected with ValueError' if exp == 'raise' else 'is accepted'),
                    fn.site(), 'outcomes %s%s' % (sorted(outs), (' (also depends on %s)' % sorted(set(val.unknown))[:3]) if val.unknown else ''), key='C12.S3|%s' % rel)
    # ---- memoised stamps: a table of the clock filled inside the day loop must be keyed by everything that identifies the stamp
    _SOUND_MEMOS.clear()
    try:
        from ..lib import memo_tables
        itfn = ctx.fn(CLS + '.__iter__')
        itps = summarise(ctx, itfn, policy=default_policy)
        for m_, vd in sorted(memo_tables(ctx, itfn, itps).items()):
            if vd[0] == 'unsound':
                ctx.violation('C12.S2', 'the clock hands out a remembered timestamp (self.%s) only for the day and time it was built for' % m_, itfn.site(),
                              'the memo is keyed by %s but the stored stamp also depends on %s: another day with the same key is given the remembered stamp'
                              % (fmt(vd[1])[:100], ', '.join(vd[2])), key='C12.S2|memo-key|%s' % m_)
            elif vd[0] == 'sound':
                ctx.holds('C12.S2', 'the clock hands out a remembered timestamp (self.%s) only for the day and time it was built for (key %s)' % (m_, fmt(vd[1])[:80]), itfn.site())
                _SOUND_MEMOS.add(m_)
    except Undecided:
        pass
    # ---- S2: event order per day, for every flag combination
    table, facts = clock_events(ctx)
    shape_known = not any(kind in ('shape', 'iter') and not ok for kind, what, ok, where in facts)
    for kind, what, ok, where in facts:
        if not shape_known:
            # the day loop is not the recognised `for day in self.business_days` with direct yields: the clauses below read nothing reliable
            if kind in ('shape', 'iter') and not ok:
                ctx.undecided('C12.S2', what, where)
        else:
            ctx.require(ok, 'C12.S2', what, where, key='C12.S2|%s' % kind)
    if not shape_known:
        table = {}
    full = [('pre_market', (0, 0)), ('market_open', (14, 30)), ('market_close', (21, 0)), ('post_market', (23, 59))]
    for (pre, post), seqs in table.items():
        exp = [x for x in full if (x[0] != 'pre_market' or pre) and (x[0] != 'post_market' or post)]
        where = ctx.fn(CLS + '.__iter__').site()
        if len(seqs) > 1 and _SOUND_MEMOS:
            # a remembered stamp equals the one computed the first time (memo judged sound below): the paths that answer from the memo repeat the computing ones
            seqs = _dedupe_seqs(seqs, _SOUND_MEMOS)
        if len(seqs) > 1:
            # which events a day gets is decided by stored state other than the two flags (a set of enabled events computed when the flags were set, ...): how that
            # state follows the flags is the constructor's and the setters' business - not related here (a setter that forgets to recompute it is the stale-value rule's)
            iterp = summarise(ctx, CLS + '.__iter__', policy=default_policy)
            flds = sorted({s_[2] for q in iterp for e_ in q.events if e_.kind == 'loop' for b_ in e_.paths for c_, _, _ in b_.conds for s_ in T.subterms(c_)
                           if s_[0] == 'attr' and s_[1] == V('self') and s_[2] not in ('pre_market', 'post_market', 'business_days')})
            # (a constructor argument kept as it was given - the end of the range, say - is not such state: selecting events by it is read, and deviates)
            plain = {w_.loc[2] for q in nps for w_ in heap_writes(q) if w_.loc[0] == 'attr' and w_.loc[1] == V('self') and w_.value is not None and w_.value[0] == 'var'}
            flds = [f_ for f_ in flds if f_ not in plain]
            if flds:
                ctx.undecided('C12.S2', 'events of a day are decided by the two flags alone (pre=%s, post=%s)' % (pre, post), where, 'the yields are selected by self.%s' % ', self.'.join(flds))
                continue
        if not ctx.require(len(seqs) == 1, 'C12.S2', 'events of a day are decided by the two flags alone (pre=%s, post=%s)' % (pre, post), where,
                           'the yields also depend on: %s' % [c for s, c in seqs][:3], key='C12.S2|flags-only'):
            continue
        seq = seqs[0][0]
        inexact = [(a, b[1]) for a, b, c in seq if isinstance(b, tuple) and b and b[0] == 'inexact']
        if inexact:
            ctx.violation('C12.S2', 'every event of a day falls exactly on its documented time of day (pre=%s, post=%s)' % (pre, post), where,
                          '%s: %s' % (inexact[0][0], inexact[0][1]), key='C12.S2|exact-time')
            continue
        got = [(a, b) for a, b, c in seq]
        if not got or any(a == '?' or b is None for a, b in got):
            # stamps that were recognised as Timestamp(datetime(...)) but not on the day being iterated are wrong whatever their time of day
            off_day = [a for a, b, c in seq if isinstance(c, tuple) and c[1] and not c[0] and b is None and a != '?']
            if off_day:
                ctx.violation('C12.S2', 'every event of a day is stamped with that day\'s date, in UTC (pre=%s, post=%s)' % (pre, post), where,
                              'events %s are built from other date fields than (day.year, day.month, day.day)' % off_day, key='C12.S2|same-day-utc')
            else:
                ctx.undecided('C12.S2', 'every event of a day is a SimulationEvent stamped with a literal time of day (pre=%s, post=%s)' % (pre, post), where, 'emits %s' % got)
            continue
        ctx.require(got == exp, 'C12.S2', 'per day: %s (pre=%s, post=%s)' % (' < '.join('%s %02d:%02d' % (a, b[0], b[1]) for a, b in exp), pre, post), where,
                    'emits %s' % got, key='C12.S2|sequence')
        ctx.require(all(c == (True, True) for a, b, c in seq), 'C12.S2', 'every event of a day is stamped with that day\'s date, in UTC (pre=%s, post=%s)' % (pre, post), where,
                    [c for a, b, c in seq], key='C12.S2|same-day-utc')
        tods = [b for a, b, c in seq]
        ctx.require(all(x is not None for x in tods) and tods == sorted(tods) and len(set(tods)) == len(tods), 'C12.S2', 'times of day strictly increase within a day', where,
                    tods, key='C12.S2|increasing')
        ctx.sample({'rule': 'C12.S2', 'pre': pre, 'post': post, 'events': got})


def clock_range_rule(ctx, rule):
    """the session's clock enumerates the business days of the unmodified (start_dt, end_dt) range (shared with C13/C14)"""
    ps = summarise(ctx, CLS + '.__init__', policy=default_policy)
    for p in normal(ps):
        w = heap_writes(p, 'business_days')
        if len(w) == 1:
            ok, why = is_business_daily_range(w[0].value, V('starting_day'), V('ending_day'))
            ctx.require(ok, rule, 'the clock covers every business day of the unmodified (start, end) range', w[0].site, why, key='%s|clock-range' % rule)
        else:
            ctx.undecided(rule, 'business_days is computed once', ctx.fn(CLS + '.__init__').site(), len(w))
    ps = summarise(ctx, 'BacktestTradingSession._create_simulation_engine', policy=no_inline)
    for p in ps:
        v = p.value
        ok = p.outcome == 'return' and v is not None and v[0] == 'call' and v[1] == ('fn', CLS) and v[2][:2] == (A('self', 'start_dt'), A('self', 'end_dt'))
        ctx.require(ok, rule, "the session's clock runs over (start_dt, end_dt)", ctx.fn('BacktestTradingSession._create_simulation_engine').site(),
                    fmt(v)[:120] if v else None, key='%s|session-clock' % rule)
