"""C09 - rebalancing trades the portfolio exactly onto its target (DESIGN C09: S1..S5).
All rules work on the summary of PortfolioConstructionModel.__call__ with its private helpers inlined, so extracting, inlining or renaming
helpers does not matter; public collaborators (broker, universe, alpha model, optimiser, sizer) appear as call events."""
from .. import terms as T
from ..lib import summarise, heap_writes, V, A, normal, raising, cond_str, no_inline, nested_events, loc_attr
from ..symex import Valuation, default_policy
from ..terms import fmt, ZERO, num
from .sizers import sizing_paths, loop_asset_weight, is_empty_weights_path, call_is, require_fresh_target

PCM = 'PortfolioConstructionModel'


def check(ctx):
    from ..lib import discarded_results
    ctx.sub(discarded_results, 'C09.S4', ('qstrader/portcon/',), 'orders and asset sets are the collections the code actually sorted')
    ctx.sub(s1_asset_set, 'C09.S1')
    ctx.sub(s2_s3_call)
    ctx.sub(s4_order_diff)
    ctx.sub(s5_sizers)
    from . import c18
    ctx.sub(c18.state_scan, ('PortfolioConstructionModel', 'DollarWeightedCashBufferedOrderSizer', 'LongShortLeveragedOrderSizer'))     # what it remembers between rebalances must not change what it answers (a vector handed out and then changed in place)
    from . import c08
    ctx.sub(c08.execution)             # once those orders fill: every order returned is submitted, none filtered
    from . import c04
    ctx.sub(c04.s5_whole_batch)        # (sells of the rebalance free the cash its buys need: sells first across the whole batch)
    ctx.sub(c04.s2_s3_update)          # ... and filled in the portfolio it was submitted for (the one whose holdings the target was computed against)


# ------------------------------------------------------------------------------------------------ matchers
def strip_set(t):
    """the collection a set()/list()/frozenset()/.keys() wrapper ranges over"""
    while True:
        if t[0] == 'call' and t[1] in (('ext', 'SET'), ('ext', 'LIST'), ('ext', 'builtins.frozenset'), ('ext', 'TUPLE')) and len(t[2]) == 1:
            t = t[2][0]
        elif t[0] == 'call' and t[1] == ('meth', 'keys') and len(t[2]) == 1:
            t = t[2][0]
        else:
            return t


_own_state = {}


def _hands_out_own_state(ctx, qn):
    """some path of qn returns an object reachable from self (a field, an element of a field) rather than one built for the caller"""
    key = (id(ctx.M), qn)
    if key not in _own_state:
        res = False
        try:
            for p_ in summarise(ctx, qn, policy=default_policy):
                v = p_.value
                if p_.outcome != 'return' or v is None:
                    continue
                while v[0] in ('sub', 'attr'):
                    if v[0] == 'attr' and v[1] == V('self'):
                        res = True
                        break
                    v = v[1]
        except Exception:
            res = True
        _own_state[key] = res
    return _own_state[key]


def _rooted_in(loc, r):
    while loc[0] in ('sub', 'attr'):
        loc = loc[1]
        if loc == r:
            return True
    return False


def union_operands(t):
    """operands of a union spelled a.union(b), a | b, set(x) | set(y), ... -> list of stripped operand terms, or None"""
    t0 = t
    if t[0] == 'call' and t[1] in (('ext', 'LIST'), ('ext', 'SET')) and len(t[2]) == 1:
        inner = union_operands(t[2][0])
        if inner is not None:
            return inner
    if t[0] == 'call' and t[1] == ('meth', 'union') and len(t[2]) >= 2:
        out = []
        for a in t[2]:
            out += union_operands(a) or [strip_set(a)]
        return out
    if t[0] == 'call' and t[1] == ('ext', 'OP_BitOr') and len(t[2]) == 2:
        out = []
        for a in t[2]:
            out += union_operands(a) or [strip_set(a)]
        return out
    if t0[0] == 'call' and t0[1] == ('ext', 'SET') and len(t0[2]) == 1 and t0[2][0][0] == 'call' and t0[2][0][1] == ('ext', 'itertools.chain') and not t0[2][0][3]:
        # set(chain(xs, ys, ...)): the distinct elements of the iterables in turn
        return [strip_set(a) for a in t0[2][0][2]]
    if t0[0] == 'call' and t0[1] == ('ext', 'SET') and len(t0[2]) == 1 and t0[2][0][0] == 'call' and t0[2][0][1] == ('ext', 'CONCAT'):
        # set(xs + ys): the distinct elements of a concatenation are the union
        out = []
        for a in t0[2][0][2]:
            if a[0] == 'call' and a[1] == ('ext', 'CONCAT'):
                out += union_operands(('call', ('ext', 'SET'), (a,), ())) or [strip_set(a)]
            else:
                out.append(strip_set(a))
        return out
    return None


def match_overlay(w):
    """W = zero weights overlaid by optimiser weights (later wins) -> (Z, O) or None"""
    if w[0] == 'dict' and len(w[1]) == 2 and w[1][0][0] is None and w[1][1][0] is None:
        return w[1][0][1], w[1][1][1]
    if w[0] == 'call' and w[1] == ('ext', 'UPDATED') and len(w[2]) == 2:
        base = w[2][0]
        if base[0] == 'call' and base[1] in (('ext', 'DICT'), ('meth', 'copy')) and len(base[2]) == 1:
            base = base[2][0]
        return base, w[2][1]
    if w[0] == 'call' and w[1] == ('ext', 'OP_BitOr') and len(w[2]) == 2:
        return w[2][0], w[2][1]
    return None


def match_zero_vector(z):
    """{a: 0.0 for a in FULL} -> FULL or None"""
    if z[0] == 'comp' and z[1] == 'dict' and len(z[3]) == 1 and not z[3][0][2] and len(z[3][0][0]) == 1 and z[2] == ('tuple', (z[3][0][0][0], ZERO)):
        return z[3][0][1]
    return None


def flat_dict(t):
    """entries of a dict literal with nested `**{...}` literals spliced in"""
    out = []
    for k, v in t[1]:
        if k is None and v[0] == 'dict':
            out.extend(flat_dict(v))
        else:
            out.append((k, v))
    return out


def pcm_paths(ctx):
    return summarise(ctx, PCM + '.__call__', policy=default_policy)


def events_of(p, suffix):
    return [e for e in p.flat_events() if e.kind == 'call' and any(c.endswith(suffix) for c in e.callee)]


# ------------------------------------------------------------------------------------------------ S1
def s1_asset_set(ctx, rule):
    fn = ctx.fn(PCM + '.__call__')
    ps = pcm_paths(ctx)
    n = 0
    for p in normal(ps):
        sz = events_of(p, 'OrderSizer.__call__')
        if len(sz) != 1:
            continue
        ov = match_overlay(sz[0].args.get('weights', ZERO))
        full = match_zero_vector(ov[0]) if ov else None
        if full is None:
            ctx.undecided(rule, 'the sizer input is zero weights over the full asset set overlaid by the optimiser weights', sz[0].site, fmt(sz[0].args.get('weights', ZERO))[:200])
            continue
        n += 1
        while (call_is(full, 'TUPLE') or call_is(full, 'LIST')) and len(full[2]) == 1 and not full[3]:
            full = full[2][0]           # the sorted assets as a tuple (a hashable key, an immutable hand-out): the same sequence
        # [k for k, _ in groupby(sorted(xs))]: the distinct elements of xs in ascending order, i.e. sorted(set(xs))
        if full[0] == 'comp' and full[1] in ('list', 'gen') and len(full[3]) == 1 and not full[3][0][2] and len(full[3][0][0]) == 2 and full[2] == full[3][0][0][0]:
            src_ = full[3][0][1]
            if src_[0] == 'call' and src_[1] == ('ext', 'itertools.groupby') and len(src_[2]) == 1 and not src_[3] and call_is(src_[2][0], 'SORTED') and not src_[2][0][3]:
                full = ('call', ('ext', 'SORTED'), (('call', ('ext', 'SET'), (src_[2][0][2][0],), ()),), ())
        srt = call_is(full, 'SORTED') and not full[3]
        ctx.require(srt, rule, 'the asset list is sorted (deterministic, ascending)', sz[0].site, fmt(full)[:120], key='%s|sorted' % rule)
        ops = union_operands(full[2][0] if srt else full)
        if ops is None:
            ctx.violation(rule, 'the asset set is held assets UNION universe(dt)', sz[0].site, 'asset set is %s' % fmt(full)[:200], key='%s|union' % rule)
            continue
        held = [e for e in events_of(p, 'SimulatedBroker.get_portfolio_as_dict') if e.args.get('portfolio_id') == A('self', 'broker_portfolio_id') and e.d.get('recv') == A('self', 'broker')]
        uni = [e for e in p.flat_events() if e.kind == 'call' and any(c.endswith('.get_assets') for c in e.callee) and e.d.get('recv') == A('self', 'universe') and e.args.get('dt') == V('dt')]
        hres = {e.result for e in held}
        ures = {e.result for e in uni}
        has_h = any(o in hres for o in ops)
        has_u = any(o in ures for o in ops)
        other = [o for o in ops if o not in hres and o not in ures]
        ctx.require(has_h, rule, 'the asset set includes every asset currently held in the session portfolio', sz[0].site, [fmt(o)[:80] for o in ops], key='%s|held' % rule)
        ctx.require(has_u, rule, 'the asset set includes the universe at dt', sz[0].site, [fmt(o)[:80] for o in ops], key='%s|universe' % rule)
        ctx.require(not other, rule, 'the asset set is exactly held assets UNION universe(dt)', sz[0].site, [fmt(o)[:80] for o in other], key='%s|union' % rule)
        # the answers of the universe and of the broker are read, not edited: an in-place change of the list the universe hands out would persist into later rebalances
        # (an answer built afresh for the caller - a dict comprehension, a copy - is the caller's to change; one that IS the callee's own list is not)
        shared = {e_.result for e_ in held + uni if any(_hands_out_own_state(ctx, q_) for q_ in e_.callee)}
        muts = [e for e in p.flat_events() if e.kind == 'write' and not e.d.get('local') and str(e.how).startswith('mut:') and any(e.loc == r or _rooted_in(e.loc, r) for r in shared)]
        ctx.require(not muts, rule, 'the universe\'s and the broker\'s answers are not modified in place', muts[0].site if muts else sz[0].site,
                    ['%s %s' % (m.how, fmt(m.loc)[:80]) for m in muts], key='%s|no-mutation' % rule)
    ctx.floor(rule, 'construction paths with a recognised asset set', n, 2)


# ------------------------------------------------------------------------------------------------ S2, S3
def s2_s3_call(ctx):
    fn = ctx.fn(PCM + '.__call__')
    ps = pcm_paths(ctx)
    n = 0
    for p in normal(ps):
        tag = cond_str(p)[:70]
        sz = events_of(p, 'OrderSizer.__call__')
        opt = events_of(p, 'Optimiser.__call__')
        from ..lib import read_marker
        if not (len(sz) == 1 and len(opt) == 1) and not read_marker(ctx, p):
            ctx.undecided('C09.S2', 'one optimiser call and one sizer call per construction [%s]' % tag, fn.site(), '%d optimiser, %d sizer calls; the path has calls this rule did not resolve' % (len(opt), len(sz)))
            continue
        if not ctx.require(len(sz) == 1 and len(opt) == 1, 'C09.S2', 'one optimiser call and one sizer call per construction [%s]' % tag, fn.site(),
                           '%d optimiser, %d sizer calls' % (len(opt), len(sz)), key='C09.S2|steps'):
            continue
        n += 1
        w = sz[0].args.get('weights', ZERO)
        ov = match_overlay(w)
        if ov is None and 'ACCUM' in fmt(w):
            # built entry by entry in a loop (a comprehension over the zero weights, then the optimiser's extra assets added one at a time): not the overlay form this
            # rule reads, and not evidence against it either
            ctx.undecided('C09.S2', 'the sizer input overlays the optimiser weights on zero weights [%s]' % tag, sz[0].site, 'the weight vector is accumulated in a loop: %s' % fmt(w)[:160])
            continue
        if not ctx.require(ov is not None, 'C09.S2', 'the sizer input overlays the optimiser weights on zero weights [%s]' % tag, sz[0].site, fmt(w)[:200], key='C09.S2|overlay'):
            continue
        z, o = ov
        ctx.require(o == opt[0].result, 'C09.S2', 'zero weights first, optimiser weights second (later wins)', sz[0].site, 'second layer is %s' % fmt(o)[:120], key='C09.S2|overlay-order')
        ctx.require(match_zero_vector(z) is not None, 'C09.S2', 'every asset of the full set gets an explicit zero weight', sz[0].site, fmt(z)[:160], key='C09.S2|zero-vector')
        ctx.require(sz[0].args.get('dt') == V('dt') and sz[0].d.get('recv') == A('self', 'order_sizer'), 'C09.S3', 'the configured order sizer is asked for (dt, full weights)', sz[0].site,
                    key='C09.S3|sizer-call')
        ctx.require(opt[0].args.get('dt') == V('dt') and opt[0].d.get('recv') == A('self', 'optimiser'), 'C09.S2', 'the configured optimiser is asked at dt', opt[0].site, key='C09.S2|optimiser')
        # S3: the same vector is recorded, dated dt
        has = None
        for c, v, _ in p.conds:
            if fmt(c) == 'stats is None':
                has = not v
        apps = [e for e in p.flat_events() if e.kind == 'write' and e.how == 'mut:append' and e.loc in (('sub', V('stats'), ('str', 'target_allocations')), ('attr', V('stats'), 'target_allocations'))]
        if has is None:
            ctx.violation('C09.S3', 'recording is decided by `stats is not None` alone', fn.site(), 'path [%s] never tests stats' % tag, key='C09.S3|record-path')
        elif has:
            ok = len(apps) == 1
            if ok:
                rec = apps[0].value[2][1]
                ok = (rec[0] == 'call' and rec[1] == ('ext', 'UPDATED') and rec[2][0] == ('dict', ((('str', 'Date'), V('dt')),)) and rec[2][1] == w) or \
                    (rec[0] == 'dict' and flat_dict(rec) == [(('str', 'Date'), V('dt'))] + flat_dict(('dict', ((None, w),))))
                if not ok and rec[0] == 'dict' and w[0] == 'dict':
                    # {'Date': dt, **zero, **optimised} when the sizer got {**zero, **optimised}: the same layers behind the date
                    ok = flat_dict(rec) == [(('str', 'Date'), V('dt'))] + flat_dict(w)
            ctx.require(ok, 'C09.S3', 'the recorded target allocation is the same full weight vector the sizer received, dated dt', apps[0].site if apps else fn.site(),
                        fmt(apps[0].value[2][1])[:200] if apps else 'no record', key='C09.S3|record')
        else:
            ctx.require(not apps, 'C09.S3', 'nothing is recorded without a stats collector', fn.site(), key='C09.S3|no-record')
        # S4 provenance: the orders returned are built from the sizer's answer and the broker's current holdings
        held = [e for e in events_of(p, 'SimulatedBroker.get_portfolio_as_dict') if e.args.get('portfolio_id') == A('self', 'broker_portfolio_id')]
        ret = p.value
        uses_target = ret is not None and any(s == sz[0].result for s in T.subterms(ret))
        uses_current = ret is not None and any(any(s == h.result for s in T.subterms(ret)) for h in held)
        ctx.require(p.outcome == 'return' and uses_target and uses_current, 'C09.S4', 'the orders returned are derived from the sized target and the current holdings [%s]' % tag,
                    fn.site(), fmt(ret)[:160] if ret else None, key='C09.S4|provenance')
        ctx.sample({'rule': 'C09.S2/S3', 'path': tag, 'sizer_input': fmt(w)[:200]})
    ctx.floor('C09.S2', 'normal paths of the construction model', n, 2)


# ------------------------------------------------------------------------------------------------ S4
def _order_loop_table(ctx, fn, p):
    """The orders are appended in a loop over the assets whose body branches on the two quantities (kinds of trade, sides of the book, ...): the body as a decision
    table over (target quantity, current quantity) in {-3, -1, 0, 2, 5}^2.  The property: an order of target - current where that is not zero, none where it is.
    -> True when a verdict (violation with the witness point, or undecided 'agrees on the table') was recorded."""
    from fractions import Fraction as F_
    from ..symex import Valuation
    from ..lib import read_marker
    loops = [e for e in p.events if e.kind == 'loop']
    lp = None
    for e in reversed(loops):
        if any(w.kind == 'write' and w.how == 'mut:append' and w.value is not None and any(s_[0] == 'new' and s_[1] == 'Order' for s_ in T.subterms(w.value))
               for b in e.paths for w in b.flat_events()):
            lp = e
            break
    if lp is None:
        return False
    qsubs = {s_ for b in lp.paths for t_ in [c_ for c_, _, _ in b.conds] for s_ in T.subterms(t_) if s_[0] == 'sub' and s_[2] == ('str', 'quantity')}
    tq = [s_ for s_ in qsubs if s_[1][0] == 'sub' and s_[1][1] == V('target_portfolio')]
    cq = [s_ for s_ in qsubs if s_[1][0] == 'sub' and s_[1][1] == V('current_portfolio')]
    if len(tq) != 1 or len(cq) != 1:
        return False
    tq, cq = tq[0], cq[0]
    what = 'order quantity = target quantity - current quantity, asset by asset; exactly the non-zero differences become orders'
    vals = [F_(-3), F_(-1), F_(0), F_(2), F_(5)]
    npts = 0
    for t_ in vals:
        for c_ in vals:
            nv = Valuation(nums={fmt(tq): t_, fmt(cq): c_})
            taken = []
            for b in lp.paths:
                if b.outcome not in ('fall', 'continue'):
                    continue
                ok = True
                for cnd, val, _ in b.conds:
                    if not any(s_ in (tq, cq) for s_ in T.subterms(cnd)):
                        continue
                    got = nv.evalbool(cnd)
                    if got is None:
                        ctx.undecided('C09.S4', what, lp.site, 'the loop body tests %s, which the table over the two quantities does not evaluate' % fmt(cnd)[:100])
                        return True
                    if got != val:
                        ok = False
                        break
                if ok:
                    taken.append(b)
            if not taken:
                ctx.undecided('C09.S4', what, lp.site, 'no path of the loop body is taken at target=%s, current=%s' % (t_, c_))
                return True
            for b in taken:
                apps = [w for w in b.flat_events() if w.kind == 'write' and w.how == 'mut:append' and w.value is not None]
                qs = [dict(s_[2]).get('quantity') for w in apps for s_ in T.subterms(w.value) if s_[0] == 'new' and s_[1] == 'Order']
                want = t_ - c_
                got = [nv.value(q_) if q_ is not None else None for q_ in qs]
                if None in got:
                    ctx.undecided('C09.S4', what, lp.site, 'an order quantity (%s) is not evaluated by the table' % fmt(qs[got.index(None)])[:100])
                    return True
                good = (got == [want]) if want != 0 else (got == [] or got == [F_(0)] and False)
                if not good and read_marker(ctx, b):
                    ctx.violation('C09.S4', what, lp.site, 'READ: with a target of %s and %s held the loop body [%s] orders %s where %s is required' % (
                        t_, c_, cond_str(b)[:100], [str(g_) for g_ in got] or 'nothing', ('%s' % want) if want != 0 else 'no order'), key='C09.S4|diff')
                    return True
                if not good:
                    ctx.undecided('C09.S4', what, lp.site, 'target=%s, current=%s gives %s on a path with calls the rule did not follow' % (t_, c_, got))
                    return True
            npts += 1
    ctx.undecided('C09.S4', what, lp.site, 'the orders are appended in a loop whose body branches on the two quantities; it gives target - current (and no order for 0) at all %d '
                  'points of the sign table, which is not a proof' % npts)
    return True


def s4_order_diff(ctx):
    qn = PCM + '._generate_rebalance_orders'
    fn = ctx.fn(qn)
    ps = summarise(ctx, qn, policy=default_policy)
    # (a decorated method is summarised once per calling convention: the same path twice is one path)
    seen_, uniq_ = set(), []
    for p_ in ps:
        import re as _re
        k_ = (p_.outcome, cond_str(p_), _re.sub(r',\d+>', ',>', _re.sub(r'#\d+', '#', fmt(p_.value))) if p_.value is not None else None)      # (loop numbers differ between runs)
        if k_ not in seen_:
            seen_.add(k_)
            uniq_.append(p_)
    ps = uniq_
    nps = [p for p in ps if p.outcome == 'return']
    if not ctx.require(len(nps) == 1 and len(ps) == 1 if (len(nps) == 1 and len(ps) == 1) else None, 'C09.S4', '_generate_rebalance_orders has one path', fn.site(), [cond_str(p)[:80] for p in ps]):
        return
    p = nps[0]
    v = p.value
    if not (v[0] == 'comp' and v[1] == 'list' and len(v[3]) == 1):
        if _order_loop_table(ctx, fn, p):
            return
        ctx.undecided('C09.S4', 'orders are one Order per asset (comprehension or append loop)', fn.site(), fmt(v)[:160])
        return
    tg, it, ifs = v[3][0]
    elt = v[2]
    if not (elt[0] == 'new' and elt[1] == 'Order'):
        ctx.undecided('C09.S4', 'each element is an Order', fn.site(), fmt(elt)[:100])
        return
    f = dict(elt[2])
    if not {'asset', 'quantity', 'created_dt'} <= set(f):
        # the Order keeps its terms under other names (a record of terms behind properties): what each order is for is not read off its fields here
        ctx.undecided('C09.S4', 'each order is for the loop asset, dated dt', fn.site(), 'an Order is built with the fields %s' % sorted(f)[:6])
        return
    asset = f.get('asset')
    if asset is not None and asset not in tg and (any(s_ in tg for s_ in T.subterms(asset)) and (fmt(it).find('None') >= 0 or any(s_[0] in ('havoc', 'lc') for s_ in T.subterms(it)))):
        # the loop ranges over records (asset, quantity, ...) produced by something the engine did not read as a sequence: which assets those are is not decided here
        ctx.undecided('C09.S4', 'each order is for the loop asset, dated dt', fn.site(), 'orders are built from records ranged over %s' % fmt(it)[:100])
        return
    ctx.require(f.get('created_dt') == V('dt') and asset in tg, 'C09.S4', 'each order is for the loop asset, dated dt', fn.site(), fmt(asset) if asset else None, key='C09.S4|order-fields')
    # iteration: every key of the target portfolio, ascending
    srt = call_is(it, 'SORTED')
    k = dict(it[3]).get('key') if srt else None
    rev = dict(it[3]).get('reverse') if srt else None
    key_ok = k is None or k == ('lambda', 1, ('sub', ('bv', 0), num(0))) or (k[0] == 'call' and 'itemgetter' in fmt(k) and k[2] == (num(0),))
    ctx.require(srt and key_ok and rev in (None, T.FALSE), 'C09.S4', 'orders are emitted in ascending asset order', fn.site(), fmt(it)[-120:], key='C09.S4|sorted')
    src = it[2][0] if srt else it
    if src[0] == 'call' and src[1] in (('meth', 'items'), ('meth', 'keys')) and len(src[2]) == 1:
        src = src[2][0]
    qty = f.get('quantity')
    # a table of differences built first ({asset: {'quantity': d(asset)} for asset in ... if keep(asset)}) and iterated afterwards: the order for an asset carries
    # what the table holds for it, and is emitted only if the table has an entry
    from ..symex import _simplify_access
    for _ in range(3):
        if not (src[0] == 'comp' and src[1] == 'dict' and len(src[3]) == 1 and src[2][0] == 'tuple' and len(src[2][1]) == 2 and qty is not None):
            break
        K_, V_ = src[2][1]
        ishape, isrc, iifs = src[3][0]
        m_ = {}
        if len(tg) == 2 and all(z[0] == 'bv' for z in tg):
            m_ = {tg[0]: K_, tg[1]: V_}
        elif len(tg) == 1 and tg[0][0] == 'bv':
            m_ = {tg[0]: K_}
        else:
            break
        # (every variable of the outer comprehension is replaced, so the result is written in the inner comprehension's variables only)
        rep = lambda z: m_.get(z) if z[0] == 'bv' else None

        def lit(t):
            def g(z):
                if z[0] == 'sub' and z[1][0] == 'dict' and z[2][0] == 'str':
                    for kk, vv in z[1][1]:
                        if kk == z[2]:
                            return vv
                return None
            return T.replace(_simplify_access(t), g)
        qty = lit(T.replace(qty, rep))
        asset = T.replace(asset, rep) if asset is not None else asset
        ifs = tuple(iifs) + tuple(lit(T.replace(c, rep)) for c in ifs)
        tg = ishape
        src = isrc
        if src[0] == 'call' and src[1] in (('meth', 'items'), ('meth', 'keys')) and len(src[2]) == 1:
            src = src[2][0]
    roots = {s[1] for s in T.subterms(src) if s[0] == 'var'}
    # ... and not over a copy of the target from which entries were filtered out first
    for s_ in T.subterms(src):
        if s_[0] == 'comp' and len(s_[3]) == 1 and s_[3][0][2] and any(z_ == V('target_portfolio') for z_ in T.subterms(s_[3][0][1])) \
                and not any(z_ == V('current_portfolio') for z_ in T.subterms(s_[3][0][1])):
            flt = s_[3][0][2]
            zero_q = [c_ for c_ in flt if c_[0] == 'not' and c_[1][0] == 'cmp' and c_[1][1] == '==' and ZERO in (c_[1][2], c_[1][3])
                      and any(z_ == ('str', 'quantity') for z_ in T.subterms(c_))]
            if zero_q:
                ctx.violation('C09.S4', 'an order is considered for every asset of the target portfolio', fn.site(),
                              'READ!: the orders are generated from a copy of the target that keeps only the entries with %s: a target of zero for a held asset - the instruction '
                              'to sell it - is dropped before any difference is taken' % fmt(zero_q[0])[:80], key='C09.S4|every-target')
                return
            ctx.undecided('C09.S4', 'an order is considered for every asset of the target portfolio', fn.site(), 'the target is filtered first: %s' % fmt(flt[0])[:100])
            return
    ctx.require('target_portfolio' in roots, 'C09.S4', 'an order is considered for every asset of the target portfolio', fn.site(), fmt(src)[:120], key='C09.S4|every-target')
    # quantity = target - current
    tq = ('sub', ('sub', V('target_portfolio'), asset), ('str', 'quantity'))
    cq = ('sub', ('sub', V('current_portfolio'), asset), ('str', 'quantity'))
    ok = qty is not None and T.teq(qty, T.t_sub(tq, cq))
    # the rule reads quantities written in terms of the two portfolios handed in; a quantity taken from a collection computed on the way (a table of
    # differences built first and iterated afterwards, private copies of the portfolios) is whatever that collection holds - not followed here
    unread = qty is not None and not ok and any(s_[0] in ('accum', 'comp', 'lc', 'havoc') or (s_[0] == 'bv' and s_ != asset) or (s_[0] == 'call' and s_[1][0] == 'fn')
                                               for s_ in T.subterms(qty))
    # whatever the current side is read from: a filter that tests ONE side's quantity alone (`target[a]['quantity'] != 0`) drops exactly the flat targets - the
    # instructions to liquidate - before any difference is taken
    for f_ in ifs:
        if f_[0] == 'not' and f_[1][0] == 'cmp' and f_[1][1] == '==' and ZERO in (f_[1][2], f_[1][3]) and qty is not None:
            X_ = f_[1][3] if f_[1][2] == ZERO else f_[1][2]
            if X_[0] == 'sub' and X_[2] == ('str', 'quantity') and not T.teq(X_, qty) and qty[0] == 'rat' and any(s_ == X_ for s_ in T.subterms(qty)) \
                    and not any(s_ == V('current_portfolio') for s_ in T.subterms(X_)):
                ctx.violation('C09.S4', 'an order is considered for every asset of the target portfolio', fn.site(),
                              'READ!: assets are dropped where %s == 0 while the order quantity is %s: a target of zero for a held asset - the instruction to sell it - never '
                              'becomes an order' % (fmt(X_)[:60], fmt(qty)[:80]), key='C09.S4|every-target')
                return
    if unread:
        ctx.undecided('C09.S4', 'order quantity = target quantity - current quantity, asset by asset', fn.site(), 'quantity is %s' % fmt(qty)[:200])
        return
    ctx.require(ok, 'C09.S4', 'order quantity = target quantity - current quantity, asset by asset', fn.site(), 'quantity is %s' % (fmt(qty)[:200] if qty else None), key='C09.S4|difference')
    # filter: exactly the non-zero differences
    okf = len(ifs) == 1 and ifs[0][0] == 'not' and ifs[0][1][0] == 'cmp' and ifs[0][1][1] == '==' and ZERO in (ifs[0][1][2], ifs[0][1][3])
    if okf:
        other = ifs[0][1][3] if ifs[0][1][2] == ZERO else ifs[0][1][2]
        okf = qty is not None and T.teq(other, qty)
    ctx.require(okf, 'C09.S4', 'exactly the non-zero differences become orders (the filtered quantity is the ordered quantity)', fn.site(), [fmt(c)[:120] for c in ifs], key='C09.S4|nonzero')
    # a target asset missing from the current portfolio counts as quantity 0 (and nothing else is defaulted for target assets)
    defaults = [w for w in heap_writes(p) if w.loc[0] == 'sub' and w.loc[1] in (V('current_portfolio'), V('target_portfolio'))]
    defaults += [e for e in p.flat_events() if e.kind == 'write' and e.how == 'mut:setdefault']
    for w in defaults:
        val = w.value if w.how != 'mut:setdefault' else (w.value[2][2] if len(w.value[2]) > 2 else None)
        ctx.require(val == ('dict', ((('str', 'quantity'), ZERO),)), 'C09.S4', 'a missing side defaults to quantity 0', w.site, fmt(val)[:60] if val else None, key='C09.S4|default')
    ctx.sample({'rule': 'C09.S4', 'iteration': fmt(it)[-100:], 'quantity': fmt(qty)[:120] if qty else None, 'filter': [fmt(c)[-80:] for c in ifs]})


# ------------------------------------------------------------------------------------------------ S5
def s5_sizers(ctx):
    for cname in ('DollarWeightedCashBufferedOrderSizer', 'LongShortLeveragedOrderSizer'):
        qn = cname + '.__call__'
        fn = ctx.fn(qn)
        ps, sp = sizing_paths(ctx, cname)
        for p in ps:
            if p.outcome == 'return' and not any(e.kind == 'loop' for e in p.events):
                if p.value is not None and p.value != ('dict', ()) and p.value[0] in ('comp', 'call', 'accum') and not is_empty_weights_path(p):
                    # a target built without a statement-level loop (comprehension, helper object): not the early return this clause is about
                    ctx.undecided('C09.S5', '%s sizes in a statement-level loop' % cname, fn.site(), fmt(p.value)[:100])
                    continue
                ok = is_empty_weights_path(p) and p.value == ('dict', ())
                ctx.require(ok, 'C09.S5', '%s returns without sizing only for an empty weight dict (and then an empty target)' % cname, fn.site(),
                            '[%s] -> %s' % (cond_str(p)[:100], fmt(p.value)[:40]), key='C09.S5|%s|early-return' % cname)
        for s in sp:
            p, lp = s['path'], s['loop']
            asset, w, wsrc = loop_asset_weight(lp)
            from .sizers import arrayish
            zipped_ = any(s_[0] == 'call' and s_[1] == ('ext', 'ZIP') for s_ in T.subterms(lp.iter))       # parallel sequences walked in step: not traced back key by key
            if wsrc is None or fmt(wsrc) == 'None' or asset is None or arrayish(lp.iter) or zipped_:
                ctx.undecided('C09.S5', '%s assigns a target to every asset it iterates (no break/continue/filter)' % cname, lp.site, 'what the loop iterates was not traced back to the weights')
                continue
            live_bodies = [b for b in s['bodies'] if b['path'].outcome != 'raise']
            if live_bodies and all(not b['writes'] for b in live_bodies):
                # two passes: the loop only collects (asset, allocation, price, ...) rows, a comprehension over the collected rows builds the target afterwards.
                # That every iterated asset ends up with a target then depends on the rows collected - not followed by this clause
                ctx.undecided('C09.S5', '%s assigns a target to every asset it iterates (no break/continue/filter)' % cname, lp.site, 'target built from rows collected first: %s' % fmt(p.value)[:100])
                continue
            require_fresh_target(ctx, 'C09.S5', s, cname, 'C09.S5|%s|fresh-target' % cname)
            for b in s['bodies']:
                bp = b['path']
                if bp.outcome == 'raise':
                    continue
                ok = bp.outcome == 'fall' and len(b['writes']) == 1 and b['writes'][0].loc[2] == asset
                ctx.require(ok, 'C09.S5', '%s assigns a target to every asset it iterates (no break/continue/filter)' % cname, lp.site, bp.describe()[:120],
                            key='C09.S5|%s|assign' % cname)
            # the value returned is the container the loop filled, keyed by every iterated asset
            v = p.value
            ok = v is not None and ((v[0] == 'comp' and v[1] == 'dict' and len(v[3]) == 1 and not v[3][0][2] and v[3][0][1] == lp.iter) or
                                    (v[0] == 'accum' and v[2] == ('dict', ())))
            ctx.require(ok, 'C09.S5', '%s returns a target for every weighted asset' % cname, fn.site(), fmt(v)[:100] if v else None, key='C09.S5|%s|return' % cname)
            # the container iterated has exactly the keys of the weights given
            from ..lib import uncopy, self_chain
            wsrc = uncopy(wsrc)
            if (wsrc[0] == 'attr' and self_chain(wsrc) is not None) or (wsrc[0] == 'sub' and wsrc[1][0] == 'attr' and self_chain(wsrc[1]) is not None):
                continue        # the remembered normalisation of a one-slot memo: equal to the computing path (which is judged here) when the memo is sound (C10/C11, C18)
            if any(s_[0] == 'call' and s_[1][0] == 'ext' and (s_[1][1].startswith('numpy.') or s_[1][1] in ('DIVZERO',)) for s_ in T.subterms(wsrc)):
                ctx.undecided('C09.S5', '%s: normalisation keeps exactly the given assets' % cname, lp.site, 'computed by array arithmetic: %s' % fmt(wsrc)[:100])
                continue
            okk = wsrc == V('weights') or (wsrc[0] == 'comp' and wsrc[1] == 'dict' and len(wsrc[3]) == 1 and not wsrc[3][0][2] and
                                          fmt(wsrc[3][0][1]) in ('weights.items()', 'weights', 'weights.keys()') and wsrc[2][1][0] == wsrc[3][0][0][0])
            ctx.require(okk, 'C09.S5', '%s: normalisation keeps exactly the given assets' % cname, lp.site, fmt(wsrc)[:120], key='C09.S5|%s|keys' % cname)
        ctx.floor('C09.S5', 'sizing paths of %s' % cname, len(sp), 2)
