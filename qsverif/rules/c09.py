"""C09 - rebalancing trades the portfolio exactly onto its target (DESIGN C09: S1..S5)."""
from .. import terms as T
from ..lib import summarise, heap_writes, V, A, normal, raising, cond_str, no_inline, nested_events, loc_attr, props_only
from ..symex import Valuation, default_policy
from ..terms import fmt, ZERO, num

PCM = 'PortfolioConstructionModel'
HELD = ('call', ('fn', 'SimulatedBroker.get_portfolio_as_dict'), (A('self', 'broker'), A('self', 'broker_portfolio_id')), ())


def check(ctx):
    s1_asset_set(ctx, 'C09.S1')
    s2_s3_call(ctx)
    s4_order_diff(ctx)
    s5_sizers(ctx)


def s1_asset_set(ctx, rule):
    qn = PCM + '._obtain_full_asset_list'
    fn = ctx.fn(qn)
    ps = summarise(ctx, qn, policy=no_inline)
    ok1 = len(ps) == 1 and ps[0].outcome == 'return'
    if not ctx.require(ok1 if ok1 else None, rule, '_obtain_full_asset_list is straight-line', fn.site(), [cond_str(p)[:80] for p in ps]):
        return
    v = ps[0].value
    uni = [e for e in ps[0].flat_events() if e.kind == 'call' and any(c.endswith('.get_assets') for c in e.callee)]
    held = [e for e in ps[0].flat_events() if e.kind == 'call' and 'SimulatedBroker.get_portfolio_as_dict' in e.callee]
    ok = len(uni) == 1 and uni[0].args.get('dt') == V('dt') and uni[0].d.get('recv') == A('self', 'universe')
    ctx.require(ok, rule, 'the universe is queried once, at dt', uni[0].site if uni else fn.site(), key='%s|universe' % rule)
    ok = len(held) == 1 and held[0].args.get('portfolio_id') == A('self', 'broker_portfolio_id')
    ctx.require(ok, rule, 'the held assets come from the session\'s own portfolio', held[0].site if held else fn.site(), key='%s|held' % rule)
    if not (uni and held):
        return
    u, h = uni[0].result, held[0].result
    hk = ('call', ('meth', 'keys'), (h,), ())
    S = lambda x: ('call', ('ext', 'SET'), (x,), ())
    L = lambda x: ('call', ('ext', 'LIST'), (x,), ())
    helds = [h, hk, L(hk), L(h)]
    unis = [u, L(u)]
    forms = []
    for a in helds:
        for b in unis:
            forms.append(('call', ('meth', 'union'), (S(a), S(b)), ()))
            forms.append(('call', ('meth', 'union'), (S(b), S(a)), ()))
            forms.append(('call', ('meth', 'union'), (S(a), b), ()))
            forms.append(('call', ('meth', 'union'), (S(b), a), ()))
            forms.append(('call', ('ext', 'OP_BitOr'), (S(a), S(b)), ()))
            forms.append(('call', ('ext', 'OP_BitOr'), (S(b), S(a)), ()))
    srt = v[0] == 'call' and v[1] == ('ext', 'SORTED') and not v[3]
    inner = v[2][0] if srt else v
    if inner[0] == 'call' and inner[1] == ('ext', 'LIST'):
        inner = inner[2][0]
    ctx.require(any(inner == f for f in forms), rule, 'the asset set is held assets UNION universe(dt)', fn.site(), fmt(inner)[:200], key='%s|union' % rule)
    ctx.require(srt, rule, 'the asset list is sorted (deterministic, ascending)', fn.site(), fmt(v)[:120], key='%s|sorted' % rule)


def s2_s3_call(ctx):
    qn = PCM + '.__call__'
    fn = ctx.fn(qn)
    ps = summarise(ctx, qn, policy=no_inline)
    n = 0
    for p in normal(ps):
        n += 1
        ev = {k: [e for e in p.flat_events() if e.kind == 'call' and any(c == k or c.endswith('.' + k) for c in e.callee)] for k in
              ('_obtain_full_asset_list', '_create_zero_target_weight_vector', '_create_full_asset_weight_vector', '_generate_target_portfolio',
               '_obtain_current_portfolio', '_generate_rebalance_orders')}
        opt = [e for e in p.flat_events() if e.kind == 'call' and any('Optimiser.__call__' in c for c in e.callee)]
        tag = cond_str(p)[:70]
        if not ctx.require(all(len(x) == 1 for x in ev.values()) and len(opt) == 1, 'C09.S2', 'each construction step runs exactly once [%s]' % tag, fn.site(),
                           {k: len(x) for k, x in ev.items()}, key='C09.S2|steps'):
            continue
        fa, zw, fw, tp, cp, ro = (ev[k][0] for k in ('_obtain_full_asset_list', '_create_zero_target_weight_vector', '_create_full_asset_weight_vector',
                                                       '_generate_target_portfolio', '_obtain_current_portfolio', '_generate_rebalance_orders'))
        ctx.require(fa.args.get('dt') == V('dt'), 'C09.S1', 'the asset set is taken at dt', fa.site, key='C09.S1|dt')
        ctx.require(zw.args.get('full_assets') == fa.result, 'C09.S2', 'zero weights cover the full asset set (held + universe)', zw.site, fmt(zw.args.get('full_assets', ZERO))[:100],
                    key='C09.S2|zero-cover')
        ok = fw.args.get('zero_weights') == zw.result and fw.args.get('optimised_weights') == opt[0].result
        ctx.require(ok, 'C09.S2', 'the full vector overlays the optimiser weights on the zero weights', fw.site, {k: fmt(v)[:60] for k, v in fw.args.items()}, key='C09.S2|overlay-args')
        ctx.require(tp.args.get('weights') == fw.result and tp.args.get('dt') == V('dt'), 'C09.S3', 'the order sizer receives the full weight vector at dt', tp.site,
                    fmt(tp.args.get('weights', ZERO))[:100], key='C09.S3|sizer-input')
        ok = ro.args.get('target_portfolio') == tp.result and ro.args.get('current_portfolio') == cp.result and ro.args.get('dt') == V('dt')
        ctx.require(ok, 'C09.S4', 'orders are the difference of the sized target and the current portfolio', ro.site, {k: fmt(v)[:50] for k, v in ro.args.items()}, key='C09.S4|diff-args')
        ctx.require(p.outcome == 'return' and p.value == ro.result, 'C09.S4', 'the construction model returns those orders unmodified', fn.site(), fmt(p.value)[:80] if p.value else None,
                    key='C09.S4|return')
        # S3: the same vector is recorded
        has = None
        for c, v, _ in p.conds:
            if fmt(c) == 'stats is None':
                has = not v
        apps = [e for e in p.flat_events() if e.kind == 'write' and e.how == 'mut:append' and e.loc == ('sub', V('stats'), ('str', 'target_allocations'))]
        if has:
            ok = len(apps) == 1
            if ok:
                rec = apps[0].value[2][1]
                ok = rec[0] == 'call' and rec[1] == ('ext', 'UPDATED') and rec[2][0] == ('dict', ((('str', 'Date'), V('dt')),)) and rec[2][1] == fw.result
                ok = ok or (rec[0] == 'dict' and (('str', 'Date'), V('dt')) in rec[1] and (None, fw.result) in rec[1])
            ctx.require(ok, 'C09.S3', 'the recorded target allocation is the same full weight vector, dated dt', apps[0].site if apps else fn.site(),
                        fmt(apps[0].value[2][1])[:160] if apps else None, key='C09.S3|record')
    ctx.floor('C09.S2', 'normal paths of the construction model', n, 2)
    # helper bodies
    ps = summarise(ctx, PCM + '._create_zero_target_weight_vector', policy=no_inline)
    ok = len(ps) == 1 and ps[0].value is not None and ps[0].value[0] == 'comp' and ps[0].value[1] == 'dict' and len(ps[0].value[3]) == 1 and \
        ps[0].value[3][0][1] == V('full_assets') and not ps[0].value[3][0][2] and ps[0].value[2] == ('tuple', (ps[0].value[3][0][0][0], ZERO))
    ctx.require(ok, 'C09.S2', 'every asset of the set gets an explicit zero weight', ctx.fn(PCM + '._create_zero_target_weight_vector').site(),
                [fmt(p.value)[:120] if p.value else p.outcome for p in ps], key='C09.S2|zero-vector')
    ps = summarise(ctx, PCM + '._create_full_asset_weight_vector', policy=no_inline)
    z, o = V('zero_weights'), V('optimised_weights')
    ok = len(ps) == 1 and ps[0].value is not None and (ps[0].value == ('dict', ((None, z), (None, o))) or
                                                        ps[0].value == ('call', ('ext', 'UPDATED'), (('call', ('ext', 'DICT'), (z,), ()), o), ()) or
                                                        ps[0].value == ('call', ('ext', 'OP_BitOr'), (z, o), ()))
    ctx.require(ok, 'C09.S2', 'zero weights first, optimiser weights second (later wins)', ctx.fn(PCM + '._create_full_asset_weight_vector').site(),
                [fmt(p.value)[:120] if p.value else p.outcome for p in ps], key='C09.S2|overlay-order')
    ps = summarise(ctx, PCM + '._generate_target_portfolio', policy=no_inline)
    ok = len(ps) == 1 and ps[0].value is not None and ps[0].value[0] == 'call' and ps[0].value[1][0] == 'fn' and 'OrderSizer.__call__' in ps[0].value[1][1] and \
        ps[0].value[2] == (A('self', 'order_sizer'), V('dt'), V('weights'))
    ctx.require(ok, 'C09.S3', 'the target portfolio is the order sizer\'s answer for (dt, weights)', ctx.fn(PCM + '._generate_target_portfolio').site(),
                [fmt(p.value)[:120] if p.value else p.outcome for p in ps], key='C09.S3|sizer-call')
    ps = summarise(ctx, PCM + '._obtain_current_portfolio', policy=no_inline)
    ok = len(ps) == 1 and ps[0].value == HELD
    ctx.require(ok, 'C09.S4', 'the current portfolio is the broker\'s holdings report of the session portfolio', ctx.fn(PCM + '._obtain_current_portfolio').site(),
                [fmt(p.value)[:120] if p.value else p.outcome for p in ps], key='C09.S4|current')


def s4_order_diff(ctx):
    qn = PCM + '._generate_rebalance_orders'
    fn = ctx.fn(qn)
    ps = summarise(ctx, qn, policy=default_policy)
    ok1 = len(ps) == 1 and ps[0].outcome == 'return'
    if not ctx.require(ok1 if ok1 else None, 'C09.S4', '_generate_rebalance_orders has one path', fn.site(), [cond_str(p)[:80] for p in ps]):
        return
    p = ps[0]
    v = p.value
    if not (v[0] == 'comp' and v[1] == 'list' and len(v[3]) == 1):
        ctx.undecided('C09.S4', 'orders are built by one comprehension', fn.site(), fmt(v)[:160])
        return
    tg, it, ifs = v[3][0]
    elt = v[2]
    # iteration: sorted by asset key ascending
    srt = it[0] == 'call' and it[1] == ('ext', 'SORTED')
    k = dict(it[3]).get('key') if srt else None
    rev = dict(it[3]).get('reverse') if srt else None
    key_ok = k is None or k == ('lambda', 1, ('sub', ('bv', 0), num(0))) or (k[0] == 'call' and 'itemgetter' in fmt(k) and k[2] == (num(0),))
    ctx.require(srt and key_ok and rev in (None, T.FALSE), 'C09.S4', 'orders are emitted in ascending asset order', fn.site(), fmt(it)[-120:], key='C09.S4|sorted')
    # element: one Order(dt, asset, qty) per key
    if not (elt[0] == 'new' and elt[1] == 'Order'):
        ctx.undecided('C09.S4', 'each element is an Order', fn.site(), fmt(elt)[:100])
        return
    f = dict(elt[2])
    ctx.require(f.get('created_dt') == V('dt') and f.get('asset') == tg[0], 'C09.S4', 'each order is for the loop asset, dated dt', fn.site(), key='C09.S4|order-fields')
    qty = f.get('quantity')
    # quantity = target - current for that asset
    loops = [e for e in p.events if e.kind == 'loop']
    diff_ok = None
    for lp in loops:
        for b in lp.paths:
            for w in b.flat_events():
                if w.kind == 'write' and w.d.get('local') and w.loc[0] == 'sub' and w.loc[1] == V('rebalance_portfolio') or (w.kind == 'write' and w.d.get('local') and fmt(w.loc).startswith('rebalance_portfolio[')):
                    val = w.value
                    if val[0] == 'dict' and (('str', 'quantity')) in dict(val[1]):
                        q = dict(val[1])[('str', 'quantity')]
                        asset = w.loc[2]
                        tq = [s for s in T.subterms(q) if s[0] == 'sub' and s[2] == ('str', 'quantity')]
                        # q must be (target[asset]['quantity']) - (current[asset]['quantity'])
                        pos = [s for s in tq if s[1][0] == 'sub' and s[1][1] == V('target_portfolio')]
                        neg = [s for s in tq if s[1][0] == 'sub' and s[1][1] == V('current_portfolio')]
                        if len(pos) == 1 and len(neg) == 1:
                            diff_ok = T.teq(q, T.t_sub(pos[0], neg[0])) and pos[0][1][0] == 'sub' and pos[0][1][2] == asset and neg[0][1][2] == asset
                            if not diff_ok:
                                ctx.violation('C09.S4', 'order quantity = target quantity - current quantity, asset by asset', w.site, fmt(q)[:200], key='C09.S4|difference')
                        ctx.require(fmt(lp.iter).startswith('ACCUM') or 'target_portfolio' in fmt(lp.iter), 'C09.S4', 'a quantity is computed for every target asset', lp.site,
                                    fmt(lp.iter)[:80], key='C09.S4|every-target')
                        ctx.require(b.outcome == 'fall' and not b.conds, 'C09.S4', 'no asset is skipped when differencing', lp.site, b.describe()[:100], key='C09.S4|no-skip')
    ctx.require(diff_ok if diff_ok is not None else None, 'C09.S4', 'order quantity = target quantity - current quantity, asset by asset', fn.site(), key='C09.S4|difference')
    # filter: non-zero only
    okf = len(ifs) == 1 and ifs[0][0] == 'not' and ifs[0][1][0] == 'cmp' and ifs[0][1][1] == '==' and ZERO in (ifs[0][1][2], ifs[0][1][3])
    if okf:
        other = ifs[0][1][3] if ifs[0][1][2] == ZERO else ifs[0][1][2]
        okf = T.teq(other, qty)
    ctx.require(okf, 'C09.S4', 'exactly the non-zero differences become orders (the filtered quantity is the ordered quantity)', fn.site(), [fmt(c)[:120] for c in ifs],
                key='C09.S4|nonzero')
    # a held asset missing from the target defaults to current quantity 0 only for *target* assets; missing current -> 0
    ctx.sample({'rule': 'C09.S4', 'iteration': fmt(it)[-100:], 'filter': [fmt(c)[-80:] for c in ifs]})


def s5_sizers(ctx):
    for cname in ('DollarWeightedCashBufferedOrderSizer', 'LongShortLeveragedOrderSizer'):
        qn = cname + '.__call__'
        fn = ctx.fn(qn)
        ps = summarise(ctx, qn, policy=default_policy)
        n = 0
        for p in normal(ps):
            empty = any(fmt(c) in ('LEN(weights) == 0', '0 == LEN(weights)') and v for c, v, _ in p.conds)
            if empty:
                ctx.require(p.value == ('dict', ()), 'C09.S5', '%s: no weights -> empty target' % cname, fn.site(), fmt(p.value), key='C09.S5|%s|empty' % cname)
                continue
            loops = [e for e in p.events if e.kind == 'loop']
            if not ctx.require(len(loops) == 1, 'C09.S5', '%s: an explicit target for every weighted asset (one loop over all weights) [%s]' % (cname, cond_str(p)[:60]), fn.site(),
                               'returns %s after %d loops' % (fmt(p.value)[:60], len(loops)), key='C09.S5|%s|loop' % cname):
                continue
            n += 1
            lp = loops[0]
            it = lp.iter
            inner = it[2][0] if it[0] == 'call' and it[1] == ('ext', 'SORTED') else it
            ok = inner[0] == 'call' and inner[1] == ('meth', 'items')
            ctx.require(ok, 'C09.S5', '%s iterates all items of the normalised weights' % cname, lp.site, fmt(it)[:120], key='C09.S5|%s|items' % cname)
            for b in lp.paths:
                if b.outcome == 'raise':
                    continue
                ws = [w for w in b.flat_events() if w.kind == 'write' and w.d.get('local') and w.loc[0] == 'sub' and w.loc[1] == V('target_portfolio')]
                asset = ('sub', ('elem', lp.iter, lp.id), num(0))
                ok = b.outcome == 'fall' and len(ws) == 1 and ws[0].loc[2] == asset
                ctx.require(ok, 'C09.S5', '%s assigns a target to every asset it iterates (no break/continue/filter)' % cname, lp.site, b.describe()[:120],
                            key='C09.S5|%s|assign' % cname)
            ctx.require(p.outcome == 'return' and p.value is not None and p.value[0] == 'accum' and p.value[2] == ('dict', ()), 'C09.S5',
                        '%s returns the dict it filled' % cname, fn.site(), fmt(p.value)[:80] if p.value else None, key='C09.S5|%s|return' % cname)
        ctx.floor('C09.S5', 'sizing paths of %s' % cname, n, 2)
        # normalisation preserves the key set
        qn2 = cname + '._normalise_weights'
        ps = summarise(ctx, qn2, policy=default_policy)
        for p in normal(ps):
            v = p.value
            ok = v == V('weights') or (v[0] == 'comp' and v[1] == 'dict' and len(v[3]) == 1 and fmt(v[3][0][1]) == 'weights.items()' and not v[3][0][2] and v[2][1][0] == v[3][0][0][0])
            ctx.require(ok, 'C09.S5', '%s._normalise_weights keeps exactly the given assets [%s]' % (cname, cond_str(p)[:60]), ctx.fn(qn2).site(), fmt(v)[:120], key='C09.S5|%s|keys' % cname)
