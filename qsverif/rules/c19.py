"""C19 - assets trade only while they belong to the universe; optimisers (DESIGN C19: S1..S3)."""
from fractions import Fraction

from .. import terms as T
from ..lib import at_construction, summarise, heap_writes, V, A, normal, cond_str, no_inline, writers_of_attr, all_terms_of
from ..symex import Valuation, default_policy
from ..terms import fmt, ZERO, num
from . import c09


def pure(ctx, rule, qn, ps, ignore=()):
    for p in ps:
        from ..lib import self_chain
        ws = [w for w in heap_writes(p) if not (w.loc[0] == 'sub' and w.loc[1][0] == 'attr' and self_chain(w.loc[1]) is not None and w.loc[1][2] in ignore)]
        if ws:
            from ..lib import validated_against_question
            flds = {w.loc[1][2] if w.loc[0] == 'sub' else w.loc[2] for w in ws if (w.loc[1] if w.loc[0] == 'sub' else w.loc)[0] == 'attr'}
            try:
                checked = validated_against_question(ctx.M, ctx.fn(qn), flds)
            except Exception:
                checked = False
            if checked:
                # state whose use is checked against the question (a memo validated on a hit, a cursor rewound when time steps back): its presence is not the defect
                ctx.undecided(rule, '%s keeps no state between calls' % qn, ws[0].site, 'keeps %s, and compares what it kept with the question before using it: whether that check '
                              'is sufficient is not decided here' % ', '.join(sorted('self.' + f_ for f_ in flds))[:160])
                return
        ctx.require(not ws, rule, '%s keeps no state between calls' % qn, ws[0].site if ws else None, [fmt(w.loc) for w in ws][:3], key='%s|%s|stateless' % (rule, qn))


def check(ctx):
    from ..lib import discarded_results
    ctx.sub(discarded_results, 'C19.S1', ('qstrader/asset/universe/', 'qstrader/alpha_model/', 'qstrader/portcon/optimiser/'),
            'membership, signal weights and optimiser outputs are computed from what the code actually sorts and filters')
    ctx.sub(s1_membership)
    s2_s3(ctx)


def same_answer_paths(ps):
    """Paths that return the same value whatever they tested on the way (a wrapper that first brings the timestamp to UTC when it carries another zone) are one
    answer.  A timestamp converted to another zone (tz_convert / astimezone) is the same instant: it compares with other instants exactly as before."""
    import copy

    def canon(t):
        return T.replace(t, lambda z: z[2][0] if z[0] == 'call' and z[1] in (('meth', 'tz_convert'), ('meth', 'astimezone')) and len(z[2]) >= 1 else None)
    out, seen = [], set()
    for p in ps:
        if p.outcome == 'return' and p.value is not None and not heap_writes(p):
            q = copy.copy(p)
            q.value = canon(p.value)
            k = T.tkey(q.value)
            if k in seen:
                continue
            seen.add(k)
            out.append(q)
        else:
            out.append(p)
    return out


def _judge_membership(ctx, fn, comp):
    if True:
        pass
        tg, it, ifs = comp[3][0]
        iter_ok = fmt(it) == 'self.asset_dates.items()' and len(tg) == 2 and comp[2] == tg[0]
        narrowed = any(s_[0] == 'slice' or (s_[0] == 'call' and s_[1] in (('ext', 'itertools.islice'),)) for s_ in T.subterms(it)) or \
            (fmt(it) == 'self.asset_dates.items()' and len(tg) == 2 and comp[2] != tg[0])
        if not iter_ok and not narrowed:
            # membership by position in a sorted list of entry instants: bisect_left(L, dt) (searchsorted, side='left') counts the entries strictly BEFORE dt, so whatever
            # is selected by `rank < count` leaves out an entry that falls exactly on dt - the boundary the property makes inclusive.  (bisect_right counts <= dt.)
            excl = [s_ for c_ in ifs for s_ in T.subterms(c_) if s_[0] == 'call' and s_[1][0] == 'ext' and s_[1][1].split('.')[-1] in ('bisect_left',) and len(s_[2]) == 2
                    and s_[2][1] == V('dt')]
            excl += [s_ for c_ in ifs for s_ in T.subterms(c_) if s_[0] == 'call' and s_[1] == ('meth', 'searchsorted') and len(s_[2]) == 2 and s_[2][1] == V('dt')
                     and dict(s_[3]).get('side', ('str', 'left')) == ('str', 'left')]
            strict = [c_ for c_ in ifs if c_[0] == 'cmp' and c_[1] == '<' and c_[3] in excl]
            if strict:
                ctx.violation('C19.S1', 'an asset is a member from its entry instant on (dt >= entry date, inclusive)', fn.site(),
                              'READ!: membership is `%s`: %s counts the entries strictly before dt, so an asset entering exactly at dt is not yet a member'
                              % (fmt(strict[0])[:100], fmt(strict[0][3])[:60]), key='C19.S1|boundary')
                return False
            ctx.undecided('C19.S1', 'every configured asset is considered and the asset itself is returned', fn.site(), 'unrecognised construction: %s' % fmt(comp)[:160])
            return False
        ctx.require(iter_ok, 'C19.S1', 'every configured asset is considered and the asset itself is returned',
                    fn.site(), fmt(comp)[:160], key='C19.S1|iter')
        date = fmt(tg[1]) if len(tg) == 2 else '?'
        # numeric fields the filter may read take the value the constructor gives them by default
        defaults = {}
        init = ctx.fn('DynamicUniverse.__init__')
        for ip in summarise(ctx, init, policy=default_policy):
            for w in heap_writes(ip):
                if w.loc[0] == 'attr' and w.loc[1] == V('self') and w.value is not None:
                    dv = init.defaults().get(w.value[1]) if w.value[0] == 'var' else None
                    if dv is not None and hasattr(dv, 'value') and isinstance(dv.value, (int, float)) and not isinstance(dv.value, bool):
                        defaults['self.' + w.loc[2]] = dv.value
                    elif w.value[0] == 'num':
                        defaults['self.' + w.loc[2]] = w.value[1]
        n = bad = 0
        for none in (True, False):
            for rel in '<=>':
                val = Valuation(isnone={date: none}, order={('dt', date): rel})
                vs = [val.evalbool(c) for c in ifs]
                n += 1
                if None in vs:
                    # the filter computes with the dates: evaluate it on concrete instants (in days) around the entry
                    vs = None
                    # (entry at midnight of day 100, and entry in the middle of day 100: an entry instant need not be a date)
                    probes = [(x_, Fraction(100)) for x_ in {'<': [98, 99, Fraction(143999, 1440)], '=': [100], '>': [Fraction(144001, 1440), 101, 130]}[rel]]
                    probes += [(x_, Fraction(201, 2)) for x_ in {'<': [100, Fraction(401, 4)], '=': [Fraction(201, 2)], '>': [Fraction(403, 4), 101]}[rel]]
                    for dtv, entry in probes:
                        nv = Valuation(isnone={date: none}, nums=dict(defaults, **{'dt': dtv, date: entry}))
                        got_ = [nv.evalbool(c) for c in ifs]
                        if None in got_:
                            vs = [None]
                            break
                        exp_ = (not none) and dtv >= entry
                        if all(got_) != exp_:
                            bad += 1
                            ctx.violation('C19.S1', 'an asset is a member iff it has an entry date and entry <= dt (inclusive)', fn.site(),
                                          'entry date %s at day %s, dt at day %s: code says %s, property says %s' % ('absent' if none else 'present', float(entry), float(dtv),
                                                                                                                    'member' if all(got_) else 'not a member', 'member' if exp_ else 'not a member'),
                                          key='C19.S1|filter-numeric|%s' % rel)
                            vs = got_
                            break
                        vs = got_
                    if vs is not None and None not in vs:
                        continue
                    vs = [None]
                if None in vs:
                    ctx.undecided('C19.S1', 'the membership filter compares only (entry date is None, dt vs entry date)', fn.site(),
                                  'filter %s depends on %s' % ([fmt(c) for c in ifs], sorted(set(val.unknown))[:3]))
                    bad = -1
                    break
                got = all(vs)
                exp = (not none) and rel in '=>'
                if got != exp:
                    bad += 1
                    ctx.violation('C19.S1', 'an asset is a member iff it has an entry date and entry <= dt (inclusive)', fn.site(),
                                  'entry date %s, dt %s entry: code says %s, property says %s' % ('absent' if none else 'present', rel, 'member' if got else 'not a member',
                                                                                                 'member' if exp else 'not a member'), key='C19.S1|filter|%s%s' % (none, rel))
            if bad < 0:
                break
        if bad == 0:
            ctx.holds('C19.S1', 'membership filter agrees with the oracle on all %d (is-None x ordering) cases' % n, fn.site())
        ctx.sample({'rule': 'C19.S1', 'filter': [fmt(c) for c in ifs], 'cases': n})

    return True


def s1_membership(ctx):
    from ..lib import one_shot_state
    for cn_ in ('DynamicUniverse', 'StaticUniverse'):
        ctx.sub(one_shot_state, 'C19.S1', cn_)      # the universe answers every query, not only the first
    # ---- S1 membership filter
    qn = 'DynamicUniverse.get_assets'
    fn = ctx.fn(qn)
    ps = summarise(ctx, qn, policy=default_policy)
    from ..lib import without_sound_memo_hits
    ps, memo_fields = without_sound_memo_hits(ctx, 'C19.S1', fn, ps, 'C19.S1|%s' % qn)

    def unlist(p):
        # list(<list comprehension>) is that list
        v = p.value
        if v is not None and v[0] == 'call' and v[1] == ('ext', 'LIST') and len(v[2]) == 1 and v[2][0][0] == 'comp' and v[2][0][1] in ('list', 'gen'):
            import copy
            p = copy.copy(p)
            p.value = ('comp', 'list') + tuple(v[2][0][2:])
        return p
    ps = same_answer_paths([unlist(p) for p in ps])
    is_comp = lambda p_: p_.outcome == 'return' and p_.value is not None and p_.value[0] == 'comp' and p_.value[1] == 'list' and len(p_.value[3]) == 1
    ok1 = bool(ps) and all(is_comp(p_) for p_ in ps) and len(ps) <= 4
    if ctx.require(ok1 if ok1 else None, 'C19.S1', 'DynamicUniverse.get_assets is one list comprehension', fn.site(), [fmt(p.value)[:120] if p.value else p.outcome for p in ps]):
        # (several paths, each a comprehension - the timestamp prepared in different ways before the filter - are judged one by one)
        for p_ in ps:
            if _judge_membership(ctx, fn, p_.value) is False:
                return
    ctx.sub(pure, 'C19.S1', qn, ps, memo_fields)
    for ip in summarise(ctx, 'DynamicUniverse.__init__', policy=default_policy):
        w = heap_writes(ip, 'asset_dates')
        ctx.require(len(w) == 1 and w[0].value == V('asset_dates'), 'C19.S1', 'the universe keeps the entry-date map it is given, unmodified (None stays None)',
                    w[0].site if w else ctx.fn('DynamicUniverse.__init__').site(), [fmt(x.value)[:120] for x in w], key='C19.S1|map-unmodified')
    ws = writers_of_attr(ctx.M, 'asset_dates')
    ctx.require(all(w.fn.qn == 'DynamicUniverse.__init__' for w in ws) and ws, 'C19.S1', 'the entry-date map is set only by the constructor', ws[0].where if ws else None,
                [w.fn.qn for w in ws], key='C19.S1|asset_dates')
    qn = 'StaticUniverse.get_assets'
    ps = same_answer_paths(summarise(ctx, qn, policy=default_policy))
    ok = len(ps) == 1 and ps[0].outcome == 'return' and ps[0].value in (A('self', 'asset_list'), ('call', ('ext', 'LIST'), (A('self', 'asset_list'),), ()))
    ctx.require(ok, 'C19.S1', 'a static universe yields exactly its configured list', ctx.fn(qn).site(), [fmt(p.value) if p.value else p.outcome for p in ps], key='C19.S1|static')
    ctx.sub(pure, 'C19.S1', qn, ps)
    ws = writers_of_attr(ctx.M, 'asset_list')
    ctx.require(all(w.fn.qn == 'StaticUniverse.__init__' for w in ws) and ws, 'C19.S1', 'the static list is set only by the constructor (and never mutated in the package)',
                ws[0].where if ws else None, [w.fn.qn + ':' + w.how for w in ws], key='C19.S1|asset_list')


def s2_s3(ctx):
    # ---- S2 universe-driven alpha model
    qn = 'SingleSignalAlphaModel.__call__'
    fn = ctx.fn(qn)
    ps = summarise(ctx, qn, policy=lambda a, b, d: default_policy(a, b, d) and b.cls is not None and b.cls.name == 'SingleSignalAlphaModel')
    ok1 = len(ps) == 1 and ps[0].outcome == 'return'
    if ctx.require(ok1, 'C19.S2', 'the universe-driven alpha model is straight-line (no memo, no early exit)', fn.site(), [cond_str(p)[:80] for p in ps], key='C19.S2|straight'):
        v = ps[0].value
        ok = v[0] == 'comp' and v[1] == 'dict' and len(v[3]) == 1 and not v[3][0][2] and v[2] == ('tuple', (v[3][0][0][0], A('self', 'signal'))) and \
            v[3][0][1][0] == 'call' and v[3][0][1][1][0] == 'fn' and 'get_assets' in v[3][0][1][1][1] and v[3][0][1][2] == (A('self', 'universe'), V('dt'))
        ctx.require(ok, 'C19.S2', 'weights are generated for exactly universe.get_assets(dt), each the configured signal', fn.site(), fmt(v)[:200], key='C19.S2|weights')
    ctx.sub(pure, 'C19.S2', qn, ps)
    for fld in ('signal', 'universe'):
        ws = writers_of_attr(ctx.M, fld, owner='SingleSignalAlphaModel')
        ws = [w for w in ws if w.fn.cls is not None and w.fn.cls.name == 'SingleSignalAlphaModel']
        ctx.require(all(at_construction(ctx.M, w, fld) for w in ws), 'C19.S2', 'SingleSignalAlphaModel.%s is set only by the constructor' % fld, ws[0].where if ws else None,
                    key='C19.S2|field|%s' % fld)
    ctx.sub(c09.s1_asset_set, 'C19.S2')
    # ---- S3 optimisers
    qn = 'FixedWeightPortfolioOptimiser.__call__'
    ps = summarise(ctx, qn, policy=default_policy)
    ok = len(ps) == 1 and ps[0].outcome == 'return' and ps[0].value == V('initial_weights')
    ctx.require(ok, 'C19.S3', 'the fixed-weight optimiser returns its input weights unchanged', ctx.fn(qn).site(), [fmt(p.value)[:100] if p.value else p.outcome for p in ps],
                key='C19.S3|fixed')
    ctx.sub(pure, 'C19.S3', qn, ps)
    qn = 'EqualWeightPortfolioOptimiser.__call__'
    fn = ctx.fn(qn)
    ps = summarise(ctx, qn, policy=default_policy)
    from ..lib import without_sound_memo_hits
    ps, eq_memos = without_sound_memo_hits(ctx, 'C19.S3', fn, ps, 'C19.S3|%s' % qn)
    rets = [p for p in ps if p.outcome == 'return']
    ctx.require(len(rets) >= 1, 'C19.S3', 'the equal-weight optimiser returns', fn.site())
    for p_ in rets:
        v = p_.value
        if any(val_ and c_[0] == 'cmp' and c_[1] in ('is', '==') and {c_[2], c_[3]} == {A('self', 'scale'), T.NONE} for c_, val_, _ in p_.conds):
            # the scale is a number: what is answered when there is none (the pinned code fails on None * float) is outside the property
            ctx.holds('C19.S3', 'a path for an optimiser built without any scale (scale is None) is outside the property', fn.site())
            continue
        good = v is not None and v[0] == 'comp' and v[1] == 'dict' and len(v[3]) == 1
        if not good:
            ctx.violation('C19.S3', 'the equal-weight optimiser returns equal weights on every path', fn.site(),
                          'path [%s] returns %s' % (cond_str(p_)[:100], fmt(v)[:100] if v else None), key='C19.S3|equal-path')
            continue
        tg, it, ifs = v[3][0]
        keys_ok = fmt(it) in ('initial_weights.keys()', 'initial_weights', 'LIST(initial_weights.keys())', 'LIST(initial_weights)') and not ifs and v[2][1][0] == tg[0]
        ctx.require(keys_ok, 'C19.S3', 'equal weights are given to exactly the assets passed in (no asset dropped)', fn.site(), fmt(v)[:200], key='C19.S3|equal-keys')
        w = v[2][1][1]
        alts = []
        for cnt in (('call', ('ext', 'LEN'), (it,), ()), ('call', ('ext', 'LEN'), (V('initial_weights'),), ()), ('call', ('ext', 'LEN'), (('call', ('meth', 'keys'), (V('initial_weights'),), ()),), ())):
            alts.append(T.t_div(A('self', 'scale'), cnt))
            alts.append(T.t_div(A('self', 'scale'), ('call', ('ext', 'LEN'), (('call', ('ext', 'LIST'), (cnt[2][0],), ()),), ())))
        ctx.require(any(T.teq(w, a) for a in alts), 'C19.S3', 'each weight = scale / number of assets given', fn.site(), fmt(w), key='C19.S3|equal-weight')
    ctx.sub(pure, 'C19.S3', qn, ps, eq_memos)
