"""C10 - long-only sizing never budgets more than the cash-buffered equity (DESIGN C10: S1 formula slot, S2 guards)."""
from .. import terms as T
from ..lib import at_construction, summarise, heap_writes, V, A, normal, raising, cond_str, no_inline, writers_of_attr
from ..symex import Valuation, default_policy
from ..terms import fmt, ZERO, num
from .sizers import sizing_paths, EQUITY, call_is, loop_asset_weight, is_empty_weights_path, require_fresh_target, is_nan_test_of

CN = 'DollarWeightedCashBufferedOrderSizer'
NEG = ('call', ('ext', 'ANY'), (('comp', 'list', ('not', ('cmp', '<=', num(0), ('bv', 0))), (((('bv', 0),), ('call', ('meth', 'values'), (V('weights'),), ()), ()),)),), ())
SUMW = ('call', ('ext', 'SUM'), (('call', ('meth', 'values'), (V('weights'),), ()),), ())


def is_neg_test(c):
    """ANY(w < 0 for w in weights.values()) in list or generator form, or MIN(weights.values()) < 0"""
    if call_is(c, 'ANY') and len(c[2]) == 1 and c[2][0][0] == 'comp':
        comp = c[2][0]
        if len(comp[3]) == 1 and fmt(comp[3][0][1]) == 'weights.values()' and not comp[3][0][2]:
            bv = comp[3][0][0][0]
            return comp[2] in (('not', ('cmp', '<=', num(0), bv)), ('cmp', '<', bv, num(0)))
    # the list of the negative weights taken as a truth value (non-empty): the same test
    inner = c[2][0] if (call_is(c, 'BOOL') or call_is(c, 'LEN')) and len(c[2]) == 1 else c
    if inner[0] == 'cmp' and inner[1] == '<' and inner[2] == num(0) and call_is(inner[3], 'LEN') and len(inner[3][2]) == 1:
        inner = inner[3][2][0]          # 0 < len([...])
    if inner[0] == 'comp' and inner[1] in ('list', 'gen') and len(inner[3]) == 1 and fmt(inner[3][0][1]) == 'weights.values()' and len(inner[3][0][2]) == 1:
        bv = inner[3][0][0][0]
        return inner[2] == bv and inner[3][0][2][0] in (('not', ('cmp', '<=', num(0), bv)), ('cmp', '<', bv, num(0)))
    # "is there a first negative one?": next((k for k, w in weights.items() if w < 0), <sentinel>) compared with the sentinel - any comprehension over the weights whose
    # only filter is `w < 0`, whatever is done with its first element
    for s_ in T.subterms(c):
        if s_[0] == 'comp' and s_[1] in ('list', 'gen') and len(s_[3]) == 1 and fmt(s_[3][0][1]) in ('weights.values()', 'weights.items()') and len(s_[3][0][2]) == 1:
            wv = s_[3][0][0][-1]
            if s_[3][0][2][0] in (('not', ('cmp', '<=', num(0), wv)), ('cmp', '<', wv, num(0))) and any(z_[0] == 'call' and z_[1] in (('ext', 'builtins.next'), ('ext', 'NEXT')) for z_ in T.subterms(c)):
                # `next(...) is <sentinel>` is true when there is NO negative weight: the test with its sense reversed
                return 'inv' if c[0] == 'cmp' and c[1] in ('is', '==') else None
    return False


def check(ctx):
    from ..lib import discarded_results
    ctx.sub(discarded_results, 'C10.S1', ('qstrader/portcon/order_sizer/', 'qstrader/broker/fee_model/'), 'each asset is sized with its own allocation, fee estimate and price')
    ctx.sub(s1_formula)
    from . import c18
    ctx.sub(c18.state_scan, (CN,))      # what the sizer keeps between calls must not change what it answers
    ctx.sub(s2_guards)
    # the fee estimate is the configured fee model applied to the share: the model must not depend on the (placeholder) quantity
    from . import c05, c06, c08
    ctx.sub(c05.s4_fee_models)
    ctx.sub(c08.sizer_selection)       # the sizer is built with the caller's buffer, unmodified
    ctx.sub(c06.converter)             # an unavailable price stays NaN (no back-fill), so it can be rejected
    ctx.sub(c06.accessors)             # ... and "no bar at or before dt" is answered NaN by the data source (not the last bar's price)
    ctx.sub(c06.handler)               # ... which the data handler hands to the sizer unchanged


def s1_formula(ctx):
    fn = ctx.fn(CN + '.__call__')
    ps, sp = sizing_paths(ctx, CN)
    ctx.floor('C10.S1', 'sizing paths of the long-only sizer', len(sp), 2)
    for s in sp:
        p, lp = s['path'], s['loop']
        from .sizers import arrayish
        if arrayish(lp.iter):
            ctx.undecided('C10.S1', 'quantity = floor((share - estimated fee) / price) for each asset', lp.site,
                          'the shares of all assets are computed at once by array arithmetic (%s): not read element by element' % fmt(lp.iter)[:100])
            continue
        asset, w, wsrc = loop_asset_weight(lp)
        alloc = T.t_mul(T.t_mul(EQUITY, T.t_sub(num(1), A('self', 'cash_buffer_percentage'))), w)
        require_fresh_target(ctx, 'C10.S1', s, CN, 'C10.S1|fresh-target')
        nb = 0
        for b in s['bodies']:
            bp = b['path']
            if bp.outcome == 'raise':
                continue
            nb += 1
            tag = cond_str(bp)[:60]
            q, fee, price = b['quantity'], b['fee'], b['price']
            if q is None or not fee or not price:
                # the estimate or the price is obtained somewhere this rule does not follow (looked up in an earlier pass, carried in records): not read
                ctx.undecided('C10.S1', 'each asset gets one quantity from one fee estimate and one price [%s]' % tag, lp.site,
                              '%s fee calls, %s price lookups on the sizing path' % (len(fee), len(price)))
                continue
            if not ctx.require(len(fee) == 1 and len(price) == 1, 'C10.S1', 'each asset gets one quantity from one fee estimate and one price [%s]' % tag, lp.site,
                               '%s fee calls, %s price lookups' % (len(fee), len(price)), key='C10.S1|shape'):
                continue
            fe, pe = fee[0], price[0]
            ok = T.teq(fe.args.get('consideration', ZERO), alloc)
            ctx.require(ok, 'C10.S1', 'the fee is estimated on the asset\'s cash-buffered share: equity x (1 - buffer) x normalised weight', fe.site,
                        'fee estimated on %s' % fmt(fe.args.get('consideration', ZERO))[:200], key='C10.S1|fee-base')
            ctx.require(fe.args.get('asset') == asset and fe.d.get('recv') == A(A('self', 'broker'), 'fee_model'), 'C10.S1', 'the estimate uses the broker\'s fee model for that asset', fe.site,
                        key='C10.S1|fee-model')
            ok = 'BacktestDataHandler.get_asset_latest_ask_price' in pe.callee and pe.args.get('dt') == V('dt') and pe.args.get('asset_symbol') == asset
            ctx.require(ok, 'C10.S1', 'the sizing price is the latest ask of that asset at dt', pe.site, str(pe)[:120], key='C10.S1|price')
            # quantity = int(floor((alloc - fee) / price))
            inner = q[2][0] if call_is(q, 'INT') and len(q[2]) == 1 else q
            rounding = inner[1][1] if inner[0] == 'call' and inner[1][0] == 'ext' and inner[1][1] in ('FLOOR', 'CEIL', 'ROUND', 'TRUNC') else None
            if rounding is None and call_is(q, 'INT'):
                rounding = 'TRUNC'
            ctx.require(rounding == 'FLOOR', 'C10.S1', 'the share count is rounded down (floor), never to nearest or up', fe.site, 'rounding class: %s in %s' % (rounding, fmt(q)[:80]),
                        key='C10.S1|rounding')
            if rounding == 'FLOOR':
                exp = T.t_div(T.t_sub(alloc, fe.result), pe.result)
                arg = inner[2][0]
                ctx.require(len(inner[2]) == 1 and T.teq(arg, exp), 'C10.S1', 'quantity = floor((share - estimated fee) / price), nothing in between', fe.site,
                            'floor of %s' % fmt(arg)[:240], key='C10.S1|formula')
                ctx.sample({'rule': 'C10.S1', 'quantity': 'INT(FLOOR((A - fee(A)) / P))', 'A': 'equity*(1-buffer)*w', 'path': cond_str(p)[:80]})
            ctx.require(call_is(q, 'INT'), 'C10.S1', 'the quantity is a whole number (int)', fe.site, fmt(q)[:60], key='C10.S1|int')
        ctx.require(nb >= 1, 'C10.S1', 'the sizing loop has a normal body path', lp.site)
    # the weights iterated are the normalised weights: w / sum(w) (or unscaled when the sum is ~0)
    qn = CN + '._normalise_weights'
    ps = summarise(ctx, qn, policy=default_policy)
    from ..lib import slot_memos
    slots = slot_memos(ctx, ctx.fn(qn), ps)
    skip = []
    for sm in slots:
        what = '_normalise_weights hands out the remembered normalisation (self.%s) only for the weights it was computed from' % sm['result']
        if sm['verdict'][0] == 'sound':
            ctx.holds('C10.S1', what + ' (the question is kept as the snapshot %s)' % fmt(sm['key'])[:60], ctx.fn(qn).site())
        elif sm['verdict'][0] == 'unsound':
            ctx.violation('C10.S1', what, ctx.fn(qn).site(), sm['verdict'][1], key='C10.S1|slot-memo|%s' % sm['result'])
        else:
            ctx.undecided('C10.S1', what, ctx.fn(qn).site(), sm['verdict'][1])
        skip.extend(sm['hits'])
    for p in normal(ps):
        if any(p is h_ for h_ in skip):
            continue        # the remembered answer equals the computing path that stored it when the slot is sound (judged above)
        close = None
        for c, v, _ in p.conds:
            if call_is(c, 'ISCLOSE') and c[2][0] == SUMW and c[2][1] == ZERO:
                close = v
                if c[3]:
                    ctx.violation('C10.S2', 'the "weights sum to ~0" shortcut uses the default tolerance', ctx.fn(qn).site(), 'tolerance changed: %s' % fmt(c)[-60:],
                                  key='C10.S2|tolerance')
        if close is None:
            ctx.undecided('C10.S1', '_normalise_weights branches on whether the weights sum to ~0', ctx.fn(qn).site(), cond_str(p)[:200])
            continue
        if close:
            ctx.require(p.value == V('weights'), 'C10.S2', 'weights summing to ~0 are returned unscaled (all-zero in, all-zero out)', ctx.fn(qn).site(), fmt(p.value)[:100],
                        key='C10.S2|zero-sum')
        else:
            v = p.value
            ok = v[0] == 'comp' and v[1] == 'dict' and len(v[3]) == 1 and fmt(v[3][0][1]) == 'weights.items()' and not v[3][0][2] and \
                v[2] == ('tuple', (v[3][0][0][0], T.t_div(v[3][0][0][1], SUMW)))
            ctx.require(ok, 'C10.S1', 'weights are normalised by their sum', ctx.fn(qn).site(), fmt(v)[:160], key='C10.S1|normalise')
    # __call__ sizes the normalised weights
    for s in sp:
        asset, w, wsrc = loop_asset_weight(s['loop'])
        # the container iterated is what _normalise_weights returned on this path: the raw weights (~0 sum) or the normalised comprehension
        if wsrc is None or fmt(wsrc) == 'None':
            ctx.undecided('C10.S1', 'the sizing loop runs over the normalised weights', s['loop'].site, 'what the loop iterates was not traced back to the weights')
            continue
        ok = wsrc == V('weights') or (wsrc[0] == 'comp' and wsrc[1] == 'dict') or \
            (wsrc[0] == 'attr' and wsrc[1] == V('self') and any(sm['result'] == wsrc[2] for sm in slots))       # the remembered normalisation, judged above
        ctx.require(ok, 'C10.S1', 'the sizing loop runs over the normalised weights', s['loop'].site, fmt(wsrc)[:100], key='C10.S1|loop-source')
    ws = writers_of_attr(ctx.M, 'cash_buffer_percentage', owner=CN)
    ws = [w for w in ws if w.fn.cls is not None and w.fn.cls.name == CN]
    ctx.require(all(at_construction(ctx.M, w, 'cash_buffer_percentage') for w in ws) and ws, 'C10.S2', 'the buffer is set only by the constructor, through its validator', ws[0].where if ws else None,
                key='C10.S2|buffer-writer')


def s2_guards(ctx):
    # buffer in [0, 1]
    from .sizers import ctor_guard_table
    ctor_guard_table(ctx, 'C10.S2', CN, 'cash_buffer_percentage', 'cash_buffer_percentage', ((-0.5, False), (0, True), (0.5, True), (1, True), (1.5, False)),
                     'a cash buffer', 'C10.S2|buffer')
    # negative weights: the test dominates every return of _normalise_weights
    qn = CN + '._normalise_weights'
    fn = ctx.fn(qn)
    ps = summarise(ctx, qn, policy=default_policy)
    for p in ps:
        neg = None
        for c, v, _ in p.conds:
            r_ = is_neg_test(c)
            if r_:
                neg = (not v) if r_ == 'inv' else v
        if p.outcome == 'raise':
            ctx.require(neg is True and p.state.exc[1] == 'ValueError', 'C10.S2', 'a negative weight is rejected with ValueError', p.state.exc[2], cond_str(p)[:120], key='C10.S2|neg-raise')
        else:
            ctx.require(neg is False, 'C10.S2', 'weights are returned only after the negative-weight check passed [%s]' % cond_str(p)[:80], fn.site(),
                        'this returning path never tested for a negative weight' if neg is None else 'returns although a weight is negative', key='C10.S2|neg-dominates')
    ctx.require(any(p.outcome == 'raise' for p in ps), 'C10.S2', 'the negative-weight refusal exists', fn.site(), key='C10.S2|neg-exists')
    # __call__: normalisation happens on every non-empty path; NaN price guard dominates the division
    ps2, sp = sizing_paths(ctx, CN)
    for p in ps2:
        if p.outcome == 'return' and p.value == ('dict', ()) and not any(e.kind == 'loop' for e in p.events):
            ok = is_empty_weights_path(p) and len(p.conds) == 1
            ctx.require(ok, 'C10.S2', 'an empty target is returned only for an empty weight dict', ctx.fn(CN + '.__call__').site(), cond_str(p)[:120], key='C10.S2|empty-only')
    for s in sp:
        p = s['path']
        ok = any((is_neg_test(c) == 'inv' and v) or (is_neg_test(c) is True and not v) for c, v, _ in p.conds)
        ctx.require(ok, 'C10.S2', 'sizing runs only after the weights were validated and normalised [%s]' % cond_str(p)[:60], ctx.fn(CN + '.__call__').site(), key='C10.S2|normalise-first')
        seen_raise = False
        if not any(b['price'] for b in s['bodies']):
            # no price lookup was read on any body path (the price arrives by a route this rule does not follow): nothing to place the NaN check against
            ctx.undecided('C10.S2', 'an unavailable (NaN) price is rejected with ValueError', s['loop'].site, 'no price lookup was read on the sizing paths')
            continue
        for b in s['bodies']:
            bp = b['path']
            nan = None
            for c, v, _ in bp.conds:
                if b['price'] and is_nan_test_of(c, b['price'][0].result):
                    nan = v
            if bp.outcome == 'raise':
                seen_raise = seen_raise or (nan is True and bp.state.exc[1] == 'ValueError')
            else:
                ctx.require(nan is False, 'C10.S2', 'the division by the price happens only after the NaN check passed', s['loop'].site, cond_str(bp)[:120], key='C10.S2|nan-dominates')
        ctx.require(seen_raise, 'C10.S2', 'an unavailable (NaN) price is rejected with ValueError', s['loop'].site, key='C10.S2|nan-raise')
