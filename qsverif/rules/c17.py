"""C17 - performance statistics match their definitions (DESIGN C17: S1 recurrence base, S2 formula slots, S3 provenance, S4 reporters agree, S5 aggregation)."""
import ast

from .. import terms as T
from ..lib import summarise, heap_writes, V, A, normal, raising, cond_str, no_inline, nested_events, loc_attr, calls_named, strip_ndarray
from ..symex import SymEx, Valuation, default_policy, Undecided
from ..terms import fmt, ZERO, num

PERF = 'qstrader.statistics.performance.'


def C(name, *args, **kw):
    return ('call', ('ext', name), tuple(args), tuple(sorted(kw.items())))


def M_(name, recv, *args, **kw):
    return ('call', ('meth', name), (recv,) + tuple(args), tuple(sorted(kw.items())))


def check(ctx):
    from ..lib import discarded_results
    ctx.sub(discarded_results, 'C17.S5', ('qstrader/statistics/',), 'statistics are computed from the series the code actually sorted and filtered')
    ctx.sub(drawdowns)
    ctx.sub(ratios)
    ctx.sub(reporters)
    ctx.sub(aggregation)
    ctx.sub(hc_months)


def _const_range(it):
    if it is not None and it[0] == 'call' and it[1] == ('ext', 'RANGE') and 1 <= len(it[2]) <= 3 and all(a[0] == 'num' and a[1].denominator == 1 for a in it[2]):
        return list(range(*[int(a[1]) for a in it[2]]))
    if it is not None and it[0] in ('list', 'tuple') and all(a[0] == 'num' for a in it[1]):
        return [a[1] for a in it[1]]
    return None


def hc_months(ctx):
    """The exported monthly table reports every month of the monthly aggregate: the calendar-month key ranges over 1..12 and the chart column is month - 1."""
    qn = 'JSONStatistics._calculate_monthly_aggregated_returns_hc'
    fn = ctx.fn(qn)
    ps = summarise(ctx, qn, policy=default_policy)
    rows = []
    for p in normal(ps):
        for e in p.flat_events():
            if e.kind == 'write' and e.how in ('mut:append',) and e.value is not None:
                for s in T.subterms(e.value):
                    if s[0] == 'sub' and s[1][0] == 'attr' and s[1][2] in ('loc', 'at') and s[2][0] == 'tuple' and len(s[2][1]) == 2:
                        rows.append((e, s))
    if not rows:
        ctx.undecided('C17.S4', 'the monthly export looks each (year, month) cell up in the monthly aggregate', fn.site())
        return
    e, s = rows[0]
    mterm = s[2][1][1]
    elems = [x for x in T.subterms(mterm) if x[0] == 'elem']
    if len(elems) != 1 or _const_range(elems[0][1]) is None:
        ctx.undecided('C17.S4', 'the month key of the export is computed from one constant range', e.site, fmt(mterm)[:120])
        return
    vals = _const_range(elems[0][1])
    months = []
    cols = []
    row = e.value[2][1] if e.value[0] == 'call' and len(e.value[2]) > 1 else None
    col = row[1][0] if row is not None and row[0] in ('list', 'tuple') and row[1] else None
    for v in vals:
        rep = lambda z: ('num', __import__('fractions').Fraction(v)) if z == elems[0] else None
        mv = T.rat(T.replace(mterm, rep))
        months.append(mv.const() if mv.is_const() else None)
        if col is not None:
            cv = T.rat(T.replace(col, rep))
            cols.append(cv.const() if cv.is_const() else None)
    ctx.require(None not in months and sorted(months) == list(range(1, 13)), 'C17.S4', 'the monthly export covers calendar months 1..12 (December included), each once', e.site,
                'month keys looked up: %s' % [int(m) if m is not None else None for m in months], key='C17.S4|hc-months')
    if cols and None not in cols and None not in months:
        ctx.require(all(c == m - 1 for c, m in zip(cols, months)), 'C17.S4', 'chart column = calendar month - 1', e.site,
                    'columns %s for months %s' % ([int(c) for c in cols], [int(m) for m in months]), key='C17.S4|hc-columns')


# ---------------------------------------------------------------------------------------- S1, S2 (drawdowns)
def drawdowns(ctx):
    qn = PERF + 'create_drawdowns'
    fn = ctx.fn(qn)
    ps = summarise(ctx, qn, policy=default_policy)
    ok1 = len(ps) == 1 and ps[0].outcome == 'return'
    if not ctx.require(ok1 if ok1 else None, 'C17.S1', 'create_drawdowns is straight-line', fn.site(), [cond_str(p)[:80] for p in ps]):
        return
    p = ps[0]
    x = V('returns')
    ret = p.value
    # ---- the running maximum
    hwm = None
    obs_forms = lambda i: (('sub', ('attr', x, 'iloc'), i), ('sub', x, i), ('sub', ('attr', x, 'values'), i))
    first_forms = obs_forms(ZERO)
    recognised = False
    for lp in [e for e in p.events if e.kind == 'loop' and e.is_for]:
        i = ('elem', lp.iter, lp.id)
        arr_writes = {}
        for b in lp.paths:
            for e in b.flat_events(False):
                if e.kind == 'write' and e.how == 'assign' and e.loc[0] == 'sub' and e.loc[2] == i and not e.d.get('local'):
                    arr_writes.setdefault(e.loc[1], []).append((b, e))
        for arr, wl in arr_writes.items():
            prev = ('sub', arr, T.t_sub(i, num(1)))
            carried = [n for n in lp.d.get('carried', [])]
            lcs = [('lc', n, lp.id) for n in carried]
            kinds = []
            for b, e in wl:
                v = e.value
                if v[0] == 'call' and v[1] == ('ext', 'MAX') and len(v[2]) == 2 and (prev in v[2] or any(l in v[2] for l in lcs)):
                    other = [a for a in v[2] if a != prev and a not in lcs]
                    carrier = prev if prev in v[2] else [l for l in lcs if l in v[2]][0]
                    kinds.append(('max', carrier, other[0] if other else None, b, e))
                elif v in lcs:
                    kinds.append(('keep', v, None, b, e))
                elif v in obs_forms(i):
                    kinds.append(('take', None, v, b, e))
            if not kinds or len(kinds) != len(wl):
                continue
            carriers = {k[1] for k in kinds if k[1] is not None}
            obs = {k[2] for k in kinds if k[2] is not None}
            if len(carriers) != 1 or len(obs) != 1:
                continue
            carrier, ob = carriers.pop(), obs.pop()
            recognised = True
            hwm = arr
            ctx.require(ob in obs_forms(i), 'C17.S1', 'the running maximum absorbs the observation of the same date', wl[0][1].site, fmt(ob), key='C17.S1|observation')
            # branch form: take the observation exactly when it exceeds the running maximum
            for k in kinds:
                if k[0] in ('keep', 'take'):
                    rel = None
                    for c, vv, _ in k[3].conds:
                        if c[0] == 'cmp' and c[1] in ('<', '<=') and {c[2], c[3]} == {carrier, ob}:
                            bigger_obs = (c[2] == carrier)          # carrier < obs  /  carrier <= obs
                            rel = vv if bigger_obs else not vv      # True: observation is the larger one (up to ties)
                    okb = rel is not None and ((k[0] == 'take') == rel)
                    ctx.require(okb, 'C17.S1', 'the running maximum is replaced exactly when the new observation is larger', k[4].site, cond_str(k[3])[:120], key='C17.S1|branch')
            it = lp.iter
            lo = it[2][0] if it[0] == 'call' and it[1] == ('ext', 'RANGE') and len(it[2]) == 2 else (ZERO if it[0] == 'call' and it[1] == ('ext', 'RANGE') and len(it[2]) == 1 else None)
            hi = it[2][-1] if it[0] == 'call' and it[1] == ('ext', 'RANGE') else None
            ctx.require(lo is not None and hi in (C('LEN', ('attr', x, 'index')), C('LEN', x), C('LEN', arr)), 'C17.S1', 'the recurrence runs to the last observation', lp.site,
                        fmt(it), key='C17.S1|range')
            if lo == num(1):
                base = [w for w in heap_writes(p, into_loops=False) if w.loc == ('sub', arr, ZERO)]
                okb = len(base) == 1 and base[0].value in first_forms
                if okb:
                    evs = list(p.events)
                    okb = evs.index(base[0]) < evs.index(lp)
                if okb and carrier[0] == 'lc':
                    okb = lp.d.get('pre_env', {}).get(carrier[1]) in first_forms
                ctx.require(okb, 'C17.S1', 'R-RECUR-BASE: the running maximum includes the first observation (seeded from the data before the loop)', lp.site,
                            'recurrence over range(1, n) with base element %s' % ([fmt(w.value) for w in base] or 'never assigned (stays 0)'), key='C17.S1|base')
            elif lo is not None:
                ctx.undecided('C17.S1', 'recurrence lower bound is the tabled one (1 with a seeded base)', lp.site, fmt(it))
    cum = [s_ for s_ in T.subterms(ret) if (s_[0] == 'call' and s_[1] in (('meth', 'cummax'), ('ext', 'numpy.maximum.accumulate'), ('ext', 'MAX.accumulate')))
           or (s_[0] == 'call' and s_[1] == ('ext', 'itertools.accumulate') and len(s_[2]) == 2 and s_[2][1] == ('ext', 'MAX') and not s_[3])]
    if not recognised and cum:
        hwm = cum[0]
        recognised = True
        ctx.holds('C17.S1', 'running maximum by a cumulative-maximum primitive (includes the first observation)', fn.site())
    if not recognised:
        ctx.undecided('C17.S1', 'the high-water mark is a tabled running-maximum idiom', fn.site(), fmt(ret)[:200])
    # ---- drawdown = (hwm - x) / hwm  ( = 1 - x / hwm )
    if not (ret[0] == 'tuple' and len(ret[1]) == 3):
        ctx.undecided('C17.S2', 'create_drawdowns returns (series, maximum, duration)', fn.site(), fmt(ret)[:120])
        return
    dd, mx, dur = ret[1]
    if hwm is None:
        # unrecognised running maximum: still check the shape (H - x) / H for the denominator H the code uses
        try:
            r_ = T.rat(dd)
            hwm = T.unrat(T.R(r_.d))
        except Exception:
            hwm = x
    exp = T.t_div(T.t_sub(hwm, x), hwm)

    def numbers_of(t):
        # the numbers of a series, whatever container holds them: Series(values, index=..., name=...) and arrays of a series are that series
        def f(z):
            if z[0] == 'call' and z[1] == ('ext', 'pandas.Series') and len(z[2]) == 1 and all(k in ('index', 'name') for k, _ in z[3]):
                return z[2][0]
            if z[0] == 'call' and z[1] == ('ext', 'numpy.fromiter') and len(z[2]) >= 1 and all(k in ('count', 'dtype') for k, _ in z[3]):
                return z[2][0]          # the numbers an iterator yields, collected into an array
            if z[0] == 'call' and z[1] in (('meth', 'rename'), ('meth', 'copy'), ('meth', 'rename_axis')) and len(z[2]) <= 2 and (len(z[2]) == 1 or z[2][1][0] == 'str') \
                    and all(k in ('index', 'name', 'deep') and v[0] in ('str', 'const') for k, v in z[3]):
                return z[2][0]          # a label given to the series, or a copy of it: the same numbers
            return None
        return strip_ndarray(T.replace(strip_ndarray(t), f))
    dd_named = dd
    if not T.teq(dd, exp) and T.teq(numbers_of(dd), numbers_of(exp)):
        exp = dd
    ctx.require(T.teq(dd, exp), 'C17.S2', 'drawdown = (running maximum - value) / running maximum', fn.site(), fmt(dd)[:200], key='C17.S2|drawdown')
    ctx.require(mx in (C('MAX', dd), M_('max', dd)), 'C17.S2', 'maximum drawdown = max of the drawdown series', fn.site(), fmt(mx)[:160], key='C17.S2|max')
    # duration: longest run of the non-zero indicator of the drawdown series
    def is_indicator(w):
        """1 where the drawdown is non-zero, 0 where it is zero: np.where(dd == 0, 0, 1), np.where(dd != 0, 1, 0), (dd != 0)[.astype(int)], (dd > 0)..."""
        while w[0] == 'call' and w[1] in (('meth', 'astype'), ('ext', 'INT')) and w[2]:
            w = w[2][0]
        nz = (('not', ('cmp', '==', ZERO, dd)), ('not', ('cmp', '==', dd, ZERO)), ('not', ('cmp', '<=', dd, ZERO)), ('cmp', '<', ZERO, dd))
        if w in nz:
            return True
        if w[0] == 'call' and w[1] == ('ext', 'WHERE') and len(w[2]) == 3:
            cond = w[2][0]
            return (cond in (('cmp', '==', ZERO, dd), ('cmp', '==', dd, ZERO)) and w[2][1] == ZERO and w[2][2] == num(1)) or \
                (cond in nz and w[2][1] == num(1) and w[2][2] == ZERO)
        return False
    grp0 = [s for s in T.subterms(dur) if s[0] == 'call' and s[1] == ('ext', 'itertools.groupby') and len(s[2]) == 1]
    ind = [g_[2][0] for g_ in grp0]
    if not ind:
        ind = [s for s in T.subterms(dur) if s[0] == 'call' and s[1] == ('ext', 'WHERE')]
    if not ind:
        ind = [w.value for w in heap_writes(p, into_loops=False) if w.value is not None and w.value[0] == 'call' and w.value[1] == ('ext', 'WHERE')]
    okd = False
    if len(ind) >= 1:
        okd = is_indicator(ind[0])
    if ind:
        ctx.require(okd, 'C17.S2', 'the under-water indicator is "drawdown != 0" of that same series', fn.site(), fmt(ind[0])[:200], key='C17.S2|indicator')
    elif any(s_[0] == 'call' and s_[1] == ('ext', 'ISCLOSE') and len(s_[2]) == 2 and s_[2][1] == ZERO and T.teq(numbers_of(s_[2][0]), numbers_of(dd)) for s_ in T.subterms(dur)):
        tol_ = next(s_ for s_ in T.subterms(dur) if s_[0] == 'call' and s_[1] == ('ext', 'ISCLOSE') and len(s_[2]) == 2 and s_[2][1] == ZERO)
        ctx.violation('C17.S2', 'the under-water indicator is "drawdown != 0" of that same series', fn.site(),
                      'READ: the duration is counted over %s: a drawdown within the tolerance of zero (1e-08 by default) is taken for none, so a period spent barely below the '
                      'high-water mark is left out of the duration' % fmt(tol_)[:100], key='C17.S2|indicator')
    else:
        ctx.undecided('C17.S2', 'the under-water indicator is "drawdown != 0" of that same series', fn.site(), 'no 0/1 indicator of the recognised forms: %s' % fmt(dur)[:120])
    grp = [s for s in T.subterms(dur) if s[0] == 'call' and s[1] == ('ext', 'itertools.groupby')]
    if grp:
        okg = dur[0] == 'call' and dur[1] == ('ext', 'MAX') and len(grp) == 1 and ind and grp[0][2] == (ind[0],)
        ctx.require(okg, 'C17.S2', 'duration = the longest consecutive run of the indicator (max over groupby runs)', fn.site(), fmt(dur)[:200], key='C17.S2|duration')
        # what is measured per run: only under-water observations count (groupby also yields the runs AT the high-water mark)
        comp = dur[2][0] if okg and dur[2] and dur[2][0][0] == 'comp' and len(dur[2][0][3]) == 1 else None
        if comp is not None and len(comp[3][0][0]) == 2:
            (kv, gv), _, oifs = comp[3][0]
            elt = comp[2]
            one = num(1)

            def truthy_one(c, var):
                return c in (('cmp', '==', var, one), ('cmp', '==', one, var), var, ('not', ('cmp', '==', var, ZERO)), ('not', ('cmp', '==', ZERO, var)), ('cmp', '<', ZERO, var))

            def counted(e):
                # -> 'ones' | 'all' | None
                if e[0] == 'call' and e[1] == ('ext', 'SUM') and len(e[2]) == 1:
                    a = e[2][0]
                    if a == gv:
                        return 'ones'                      # the flags are 0/1: their sum counts the ones
                    if a[0] == 'comp' and len(a[3]) == 1 and a[3][0][1] == gv and len(a[3][0][0]) == 1:
                        iv, fs = a[3][0][0][0], a[3][0][2]
                        if a[2] == one and len(fs) == 1 and truthy_one(fs[0], iv):
                            return 'ones'
                        if a[2] == iv and not fs:
                            return 'ones'
                        if a[2] == one and not fs:
                            return 'all'
                if e[0] == 'call' and e[1] == ('ext', 'LEN') and len(e[2]) == 1 and e[2][0][0] == 'call' and e[2][0][1] in (('ext', 'LIST'), ('ext', 'TUPLE')) \
                        and e[2][0][2] == (gv,):
                    return 'all'
                return None
            kind = counted(elt)
            selects = any(truthy_one(c, kv) for c in oifs)
            if kind is None:
                # k * len(list(g)) : the run key is the 0/1 flag itself
                for cand in (('call', ('ext', 'LEN'), (('call', ('ext', 'LIST'), (gv,), ()),), ()),):
                    if T.teq(elt, T.t_mul(kv, cand)):
                        kind, selects = 'all', True
            if kind == 'ones' or (kind == 'all' and selects):
                ctx.holds('C17.S2', 'each run is measured by its under-water observations only (runs at the high-water mark count 0)', fn.site())
            elif kind == 'all':
                ctx.violation('C17.S2', 'each run is measured by its under-water observations only (runs at the high-water mark count 0)', fn.site(),
                              'every run is measured by its full length (%s) and runs of the at-high-water flag are not excluded: a long stretch of new highs is reported as drawdown duration'
                              % fmt(elt)[:100], key='C17.S2|run-measure')
            else:
                ctx.undecided('C17.S2', 'the per-run measure is a tabled idiom', fn.site(), fmt(elt)[:160])
    else:
        ctx.undecided('C17.S2', 'the run-length computation of the duration is a tabled idiom', fn.site(), fmt(dur)[:120])
    ctx.sample({'rule': 'C17.S1/S2', 'drawdown': fmt(dd)[:120], 'duration': fmt(dur)[:160]})


# ---------------------------------------------------------------------------------------- S2 (ratios)
def ratios(ctx):
    r, per = V('returns'), V('periods')
    qn = PERF + 'create_cagr'
    ps = summarise(ctx, qn, policy=default_policy)
    eq = V('equity')
    last = ('sub', ('attr', eq, 'iloc'), num(-1))
    n = C('LEN', eq)
    exp = T.t_sub(('pow', last, T.t_div(per, n)), num(1))
    ok = len(ps) == 1 and ps[0].outcome == 'return' and T.teq(ps[0].value, exp)
    ctx.require(ok, 'C17.S2', 'CAGR = final cumulative return ^ (periods / number of observations) - 1', ctx.fn(qn).site(), [fmt(p.value) if p.value else p.outcome for p in ps],
                key='C17.S2|cagr')
    qn = PERF + 'create_sharpe_ratio'
    ps = summarise(ctx, qn, policy=default_policy)
    exp = T.t_div(T.t_mul(C('SQRT', per), C('MEAN', r)), C('STD', r))
    ok = len(ps) == 1 and ps[0].outcome == 'return' and T.teq(ps[0].value, exp)
    ctx.require(ok, 'C17.S2', 'Sharpe = sqrt(periods) x mean(returns) / population std(returns)', ctx.fn(qn).site(), [fmt(p.value) if p.value else p.outcome for p in ps],
                key='C17.S2|sharpe')
    qn = PERF + 'create_sortino_ratio'
    ps = summarise(ctx, qn, policy=default_policy)
    neg = ('sub', r, ('not', ('cmp', '<=', ZERO, r)))
    exp = T.t_div(T.t_mul(C('SQRT', per), C('MEAN', r)), C('STD', neg))
    ok = len(ps) == 1 and ps[0].outcome == 'return' and T.teq(ps[0].value, exp)
    ctx.require(ok, 'C17.S2', 'Sortino = sqrt(periods) x mean(returns) / population std(strictly negative returns)', ctx.fn(qn).site(),
                [fmt(p.value) if p.value else p.outcome for p in ps], key='C17.S2|sortino')
    for q in ('create_cagr', 'create_sharpe_ratio', 'create_sortino_ratio'):
        f = ctx.fn(PERF + q)
        d = f.defaults().get('periods')
        ctx.require(isinstance(d, ast.Constant) and d.value == 252, 'C17.S2', '%s annualises with 252 periods by default' % q, f.site(), key='C17.S2|periods|%s' % q)


# ---------------------------------------------------------------------------------------- S3, S4
def kind_of(t):
    """'returns' / 'cum' / 'equity' column of a curve, else None"""
    if t[0] == 'sub' and t[2][0] == 'str':
        k = t[2][1].lower().replace('_', '')
        return {'returns': 'returns', 'cumreturns': 'cum', 'equity': 'equity'}.get(k)
    # the defining expressions themselves (a column read after it was assigned in the same function)
    if t[0] == 'call' and t[1] == ('meth', 'fillna') and t[2][1:] == (ZERO,) and t[2][0][0] == 'call' and t[2][0][1] == ('meth', 'pct_change') \
            and len(t[2][0][2]) == 1 and kind_of(t[2][0][2][0]) == 'equity':
        return 'returns'
    if t[0] == 'call' and t[1] == ('ext', 'EXP') and len(t[2]) == 1 and t[2][0][0] == 'call' and t[2][0][1] == ('meth', 'cumsum'):
        lg = t[2][0][2][0]
        if lg[0] == 'call' and lg[1] == ('ext', 'LOG') and len(lg[2]) == 1:
            rest = T.t_sub(lg[2][0], num(1))
            if kind_of(rest) == 'returns':
                return 'cum'
    if t[0] == 'call' and t[1] == ('meth', 'cumprod') and len(t[2]) == 1 and kind_of(T.t_sub(t[2][0], num(1))) == 'returns':
        return 'cum'
    return None


def reporters(ctx):
    # the two derivations of returns and cumulative returns
    derivs = {}
    for qn, curve, rname, cname in (('JSONStatistics._calculate_returns', 'curve', 'Returns', 'CumReturns'), ('TearsheetStatistics.get_results', 'equity_df', 'returns', 'cum_returns')):
        fn = ctx.fn(qn)
        def helpers(caller, callee, depth):
            # shared derivation helpers of the statistics package are read through; the tabled metric functions stay calls
            if depth <= 3 and callee.cls is not None and default_policy(caller, callee, depth):
                return True
            return depth <= 3 and callee.cls is None and callee.path.startswith('qstrader/statistics/') and \
                callee.name not in ('create_drawdowns', 'create_cagr', 'create_sharpe_ratio', 'create_sortino_ratio', 'aggregate_returns')
        ps = summarise(ctx, qn, policy=helpers)
        for p in normal(ps):
            c = V(curve)
            eqc = ('sub', c, ('str', 'Equity'))
            r_exp = M_('fillna', M_('pct_change', eqc), ZERO)
            wr = [w for w in heap_writes(p) if w.loc == ('sub', c, ('str', rname))]
            wc = [w for w in heap_writes(p) if w.loc == ('sub', c, ('str', cname))]
            ok = len(wr) == 1 and wr[0].value == r_exp
            ctx.require(ok, 'C17.S3', '%s: period returns = pct_change of the equity column, first return 0' % qn, wr[0].site if wr else fn.site(),
                        [fmt(w.value) for w in wr], key='C17.S3|%s|returns' % qn)
            c_exp = C('EXP', M_('cumsum', C('LOG', T.t_add(num(1), r_exp))))
            alt = M_('cumprod', T.t_add(num(1), r_exp))
            ok = len(wc) == 1 and (T.teq(wc[0].value, c_exp) or T.teq(wc[0].value, alt))
            ctx.require(ok, 'C17.S3', '%s: cumulative returns compound the period returns' % qn, wc[0].site if wc else fn.site(), [fmt(w.value) for w in wc],
                        key='C17.S3|%s|cum' % qn)
            if wr and wc:
                derivs[qn] = (fmt(T.replace(wr[0].value, lambda t: V('CURVE') if t == c else None)), fmt(T.replace(wc[0].value, lambda t: V('CURVE') if t == c else None)))
    if len(derivs) == 2:
        a, b = derivs.values()
        ctx.require(a == b, 'C17.S4', 'JSON export and tearsheet derive returns and cumulative returns by the same expressions', None, '%s vs %s' % (a, b), key='C17.S4|derivations')
    # every perf.* call: which series it receives
    table = {'create_drawdowns': ('cum',), 'create_cagr': ('cum', 'periods'), 'create_sharpe_ratio': ('returns', 'periods'), 'create_sortino_ratio': ('returns', 'periods')}
    n = 0
    def host_helpers(caller, callee, depth):
        # the reporter's own private steps (a helper that derives the two series and hands them back) are read through; the tabled metric functions stay calls
        if depth > 3 or callee.name in table or callee.name == 'aggregate_returns':
            return False
        if callee.cls is not None and callee.cls.name in ('JSONStatistics', 'TearsheetStatistics'):
            return callee.name.startswith('_') and not callee.name.startswith('__') and \
                callee.name in ('_calculate_returns', '_append_returns') or (callee.cls is caller.cls and callee.name.startswith('_') and not callee.name.startswith('__')
                                                                              and callee.qn not in ('JSONStatistics._calculate_statistics', 'TearsheetStatistics._plot_txt_curve'))
        # module-level helpers and small record classes of the statistics package (a columns record built from the frame, ...) are read through
        return callee.path.startswith('qstrader/statistics/') and callee.name != '__init__'
    for host in ('JSONStatistics._calculate_statistics', 'TearsheetStatistics.get_results', 'TearsheetStatistics._plot_txt_curve'):
        fn = ctx.fn(host)
        try:
            ps = summarise(ctx, host, policy=host_helpers)
        except Undecided:
            ps = summarise(ctx, host, policy=no_inline)
        for p in normal(ps):
            for e in p.flat_events():
                if e.kind != 'call':
                    continue
                for name, kinds in table.items():
                    if PERF + name in e.callee:
                        n += 1
                        args = list(e.args.values())
                        k0 = kind_of(args[0]) if args else None
                        ctx.require(k0 == kinds[0], 'C17.S3', '%s: %s is computed from the %s series (scale-free: derived from pct_change)' % (host, name, kinds[0]), e.site,
                                    fmt(args[0])[:80] if args else None, key='C17.S3|%s|%s|series' % (host, name))
                        if len(kinds) > 1:
                            ok = len(args) > 1 and args[1] == A('self', 'periods')
                            ctx.require(ok, 'C17.S4', '%s: %s annualises with the reporter\'s configured periods' % (host, name), e.site,
                                        fmt(args[1]) if len(args) > 1 else 'default', key='C17.S4|%s|%s|periods' % (host, name))
            break
    ctx.floor('C17.S3', 'perf.* call sites in the reporters', n, 4)
    # the tearsheet's text panel reads its series from the same results dict
    fn = ctx.fn('TearsheetStatistics.get_results')
    ps = summarise(ctx, fn, policy=host_helpers)
    for p in normal(ps):
        v = p.value
        if v is None:
            continue
        want = {'returns': ('sub', V('equity_df'), ('str', 'returns')), 'cum_returns': ('sub', V('equity_df'), ('str', 'cum_returns'))}
        got = {}
        cur = v
        closed = False
        for _ in range(40):
            if cur[0] == 'call' and cur[1] == ('ext', 'SETITEM'):
                if cur[2][1][0] == 'str':
                    got.setdefault(cur[2][1][1], cur[2][2])
                cur = cur[2][0]
            elif cur[0] == 'call' and cur[1] == ('ext', 'UPDATED') and len(cur[2]) <= 2:
                # d.update(other) / d.update(key=value, ...)
                for kk, vv in cur[3]:
                    got.setdefault(kk, vv)
                if len(cur[2]) == 2 and cur[2][1][0] == 'dict':
                    for kk, vv in cur[2][1][1]:
                        if kk is not None and kk[0] == 'str':
                            got.setdefault(kk[1], vv)
                elif len(cur[2]) == 2:
                    break
                cur = cur[2][0]
            elif cur[0] == 'call' and cur[1] in (('ext', 'DICT'), ('meth', 'copy')) and len(cur[2]) == 1 and not cur[3]:
                cur = cur[2][0]
            else:
                break
        if cur[0] == 'dict':
            closed = all(kk is not None for kk, _ in cur[1])
            for kk, vv in cur[1]:
                if kk is not None and kk[0] == 'str':
                    got.setdefault(kk[1], vv)
        elif cur[0] == 'comp' and cur[1] == 'dict':
            closed = True               # a template of keys (dict.fromkeys(names)) filled above
        for k, t in want.items():
            hv = p.heap.get(t, t)
            if k not in got and not closed:
                ctx.undecided('C17.S4', "tearsheet results['%s'] is that series" % k, fn.site(), 'the results dict is built in a way this rule does not read: %s' % fmt(v)[:100])
                continue
            ctx.require(got.get(k) in (t, hv), 'C17.S4', "tearsheet results['%s'] is that series" % k, fn.site(), fmt(got.get(k, ZERO))[:80], key='C17.S4|results|%s' % k)
        # every call answers with its own dict: a class-level (or instance-level) dict filled in place is one object shared by every report
        for w in heap_writes(p):
            if str(w.how).startswith('mut:') or w.loc[0] == 'sub':
                base = w.loc
                while base[0] == 'sub':
                    base = base[1]
                if base[0] == 'attr' and base[1] == V('self') and any(s_ == base for s_ in T.subterms(v)):
                    ctx.violation('C17.S4', 'each call of get_results answers with its own results dict', w.site,
                                  '%s is filled in place and returned: strategy and benchmark reports share (and overwrite) one dict' % fmt(base), key='C17.S4|results|shared')
    # reporters keep no cache: JSONStatistics methods other than the constructor write no attributes
    c = ctx.cls('JSONStatistics')
    for name, m in sorted(c.methods.items()):
        if name == '__init__' or m.is_static:
            continue
        for n_ in ast.walk(m.node):
            tg = []
            if isinstance(n_, ast.Assign):
                tg = n_.targets
            elif isinstance(n_, (ast.AugAssign, ast.AnnAssign)):
                tg = [n_.target]
            for t in tg:
                b = t
                while isinstance(b, ast.Subscript):
                    b = b.value
                if isinstance(b, ast.Attribute) and isinstance(b.value, ast.Name) and b.value.id == 'self':
                    from ..lib import validated_against_question
                    try:
                        checked = validated_against_question(ctx.M, m, {b.attr}, depth=0)
                    except Exception:
                        checked = False
                    if checked:
                        # a memo whose hit is compared with the curve passed in (cached_source.equals(returns)): not, by its presence, the strategy's numbers for the benchmark
                        ctx.undecided('C17.S4', 'statistics are recomputed from the curve passed in (no cache on the reporter)', m.site(n_),
                                      '%s keeps self.%s and compares what it kept with its arguments before using it: whether that check is sufficient is not decided here' % (m.qn, b.attr))
                        continue
                    ctx.violation('C17.S4', 'statistics are recomputed from the curve passed in (no cache on the reporter)', m.site(n_),
                                  '%s writes self.%s: a memo not keyed by the curve makes the benchmark section reuse the strategy\'s numbers' % (m.qn, b.attr),
                                  key='C17.S4|cache|%s' % m.qn)
    ctx.holds('C17.S4', 'no reporter method caches results on self', None)
    # the monthly / yearly aggregates are taken from the returns series passed in
    for q, freq in (('JSONStatistics._calculate_monthly_aggregated_returns', 'monthly'), ('JSONStatistics._calculate_yearly_aggregated_returns', 'yearly')):
        ps = summarise(ctx, q, policy=no_inline)
        for p in ps:
            cs = [e for e in p.flat_events() if e.kind == 'call' and PERF + 'aggregate_returns' in e.callee]
            ok = len(cs) == 1 and list(cs[0].args.values()) == [V('returns'), ('str', freq)]
            ctx.require(ok, 'C17.S5', '%s aggregates the returns it is given, %s' % (q, freq), cs[0].site if cs else ctx.fn(q).site(), key='C17.S5|%s' % q)


# ---------------------------------------------------------------------------------------- S5
def aggregation(ctx):
    qn = PERF + 'aggregate_returns'
    fn = ctx.fn(qn)
    host = fn
    cum = host.nested.get('cumulate_returns') if hasattr(host, 'nested') else None
    if cum is None:
        ctx.undecided('C17.S5', 'aggregate_returns compounds through its local helper', fn.site(), 'helper cumulate_returns not found')
        return
    sx = SymEx(ctx.M, policy=default_policy)
    ps = sx.run(cum)
    x = V('x')
    exp = T.t_sub(('sub', ('attr', C('EXP', M_('cumsum', C('LOG', T.t_add(num(1), x)))), 'iloc'), num(-1)), num(1))
    alt = T.t_sub(C('EXP', M_('sum', C('LOG', T.t_add(num(1), x)))), num(1))
    alt2 = T.t_sub(M_('prod', T.t_add(num(1), x)), num(1))
    ok = len(ps) == 1 and ps[0].outcome == 'return' and any(T.teq(ps[0].value, e) for e in (exp, alt, alt2))
    ctx.require(ok, 'C17.S5', 'a period compounds its returns: exp(sum(log(1 + r))) - 1', cum.site(), [fmt(p.value) if p.value else p.outcome for p in ps], key='C17.S5|compound')
    ps = summarise(ctx, qn, policy=default_policy)
    keysets = []
    for p in ps:
        if p.outcome != 'return' or p.value in (None, T.NONE):
            continue
        v = p.value
        ok = v[0] == 'call' and v[1] == ('meth', 'apply') and len(v[2]) == 2 and v[2][1] == ('localfn', 'cumulate_returns', fn.qn) and \
            v[2][0][0] == 'call' and v[2][0][1] == ('meth', 'groupby') and v[2][0][2][0] == V('returns')
        ctx.require(ok, 'C17.S5', 'every aggregate applies the same compounding to a groupby partition of the returns [%s]' % cond_str(p)[:60], fn.site(), fmt(v)[:160],
                    key='C17.S5|branch')
        if ok:
            keysets.append(fmt(v[2][0][2][1]) if len(v[2][0][2]) > 1 else '?')
    ctx.require(len(set(keysets)) >= 3, 'C17.S5', 'weekly, monthly and yearly aggregation exist (three distinct partitions)', fn.site(), sorted(set(keysets)), key='C17.S5|branches')
    for n in ast.walk(fn.node):
        if isinstance(n, ast.Expr) and isinstance(n.value, ast.Call) and isinstance(n.value.func, ast.Name) and n.value.func.id.endswith('Error'):
            ctx.note('R-UNRAISED: %s builds %s without raising it (an unknown frequency returns None); outside the property statement' % (fn.site(n), n.value.func.id))
