"""C04 - orders fill exactly once, in full, only in exchange hours, sells first (DESIGN C04: S1..S6)."""
import ast

from .. import terms as T
from ..lib import (writers_of_attr, calls_named, summarise, heap_writes, same, V, A, normal, raising, cond_str, loc_attr, nested_events,
                   props_only, no_inline, kw, mentions_attr)
from ..symex import Valuation, Undecided, default_policy
from ..terms import fmt, ZERO, num

OPEN_TEST = 'SimulatedExchange.is_open_at_datetime'


def s5_whole_batch(ctx):
    """Sells go before buys across the WHOLE batch of an update.  A sort by direction applied inside the loop over the portfolios - to what was drained from that one
    portfolio - and handed on portfolio by portfolio (yield from / extend / +=) orders each portfolio's orders only: a buy of the first portfolio is executed before
    a sell of the second."""
    import ast as _ast
    from ..lib import private_closure
    n = 0
    for q in sorted(private_closure(ctx.M, {'SimulatedBroker.update'})):
        g = ctx.M.funcs.get(q)
        if g is None:
            continue
        pm = {c_: p_ for p_ in _ast.walk(g.node) for c_ in _ast.iter_child_nodes(p_)}
        for c in _ast.walk(g.node):
            if not (isinstance(c, _ast.Call) and ((isinstance(c.func, _ast.Name) and c.func.id == 'sorted') or (isinstance(c.func, _ast.Attribute) and c.func.attr == 'sort'))):
                continue
            n += 1
            # enclosing loops over the portfolios / the order queues
            anc, loops = pm.get(c), []
            handed_on = None
            while anc is not None and anc is not g.node:
                if isinstance(anc, _ast.For) and any(isinstance(x_, _ast.Attribute) and x_.attr in ('portfolios', 'open_orders') for x_ in _ast.walk(anc.iter)):
                    loops.append(anc)
                if isinstance(anc, _ast.YieldFrom) or (isinstance(anc, _ast.Call) and isinstance(anc.func, _ast.Attribute) and anc.func.attr == 'extend') or \
                        (isinstance(anc, _ast.AugAssign) and isinstance(anc.op, _ast.Add)):
                    handed_on = handed_on or anc
                anc = pm.get(anc)
            if not loops or handed_on is None or isinstance(c.func, _ast.Attribute):
                continue
            lv = {x_.id for x_ in _ast.walk(loops[0].target) if isinstance(x_, _ast.Name)}
            uses_lv = any(isinstance(x_, _ast.Name) and x_.id in lv for a_ in c.args for x_ in _ast.walk(a_))
            if uses_lv:
                ctx.violation('C04.S5', 'sells are executed before buys across the whole batch of an update', g.site(c),
                              'READ!: `%s` sorts what was drained for ONE portfolio (%s) inside the loop over the portfolios and hands it on portfolio by portfolio: with two '
                              'portfolios a buy of the first is executed before a sell of the second' % (_ast.unparse(c)[:70], ', '.join(sorted(lv))), key='C04.S5|per-portfolio')
    ctx.holds('C04.S5', 'no ordering step of the update covers one portfolio only (%d sort calls examined)' % n, None)
    # itertools.groupby groups CONSECUTIVE equal keys: fed the orders as they were drained (not sorted by that key first) a sell queued after a buy is a second
    # "sells" group after the buys - executed after them, or overwriting the first group when the groups are collected into a dict
    for q in sorted(private_closure(ctx.M, {'SimulatedBroker.update'})):
        g = ctx.M.funcs.get(q)
        if g is None:
            continue
        for c in _ast.walk(g.node):
            if isinstance(c, _ast.Call) and _ast.unparse(c.func).split('.')[-1] == 'groupby' and c.args and ctx.M.ext_name(g.mod, c.func) in ('itertools.groupby',):
                src = c.args[0]
                if isinstance(src, _ast.Name):
                    defs = [s_.value for s_ in _ast.walk(g.node) if isinstance(s_, _ast.Assign) and any(isinstance(t_, _ast.Name) and t_.id == src.id for t_ in s_.targets)]
                    src = defs[0] if len(defs) == 1 else src
                is_sorted = isinstance(src, _ast.Call) and isinstance(src.func, _ast.Name) and src.func.id == 'sorted'
                sorted_inplace = isinstance(c.args[0], _ast.Name) and any(isinstance(s_, _ast.Call) and isinstance(s_.func, _ast.Attribute) and s_.func.attr == 'sort'
                                                                         and isinstance(s_.func.value, _ast.Name) and s_.func.value.id == c.args[0].id for s_ in _ast.walk(g.node))
                if not is_sorted and not sorted_inplace:
                    ctx.violation('C04.S5', 'sells are executed before buys across the whole batch of an update', g.site(c),
                                  'READ!: `%s` groups consecutive orders only and its input is not sorted by that key first: orders of one side that were queued on either side of an '
                                  'order of the other side end up in separate groups' % _ast.unparse(c)[:80], key='C04.S5|groupby-unsorted')


def check(ctx):
    from ..lib import discarded_results
    ctx.sub(discarded_results, 'C04.S5', ('qstrader/broker/', 'qstrader/exchange/'), 'the batch executed is the one the code sorted (no ordering step whose result is thrown away)')
    ctx.sub(s1_submit)
    ctx.sub(s5_whole_batch)
    upd = s2_s3_update(ctx)
    ctx.sub(s4_in_full)
    from . import c06
    ctx.sub(c06.handler)            # "never dropped": an order is refused for lack of a price only if no data source quotes the asset at that time
    ctx.sub(s6_hours)
    from . import c18
    ctx.sub(c18.state_scan, ('SimulatedExchange',))     # what the exchange remembers between queries must not change what it answers


# ---------------------------------------------------------------------------------------------- S1
def s1_submit(ctx):
    qn = 'SimulatedBroker.submit_order'
    ps = summarise(ctx, qn, policy=default_policy)
    nps = normal(ps)
    ctx.require(len(nps) >= 1, 'C04.S1', 'submit_order has an accepting path', ctx.fn(qn).site())
    for p in nps:
        ws = heap_writes(p)
        puts = [w for w in ws if w.how in ('mut:put', 'mut:put_nowait') and w.loc == ('sub', A('self', 'open_orders'), V('portfolio_id'))]
        rest = [w for w in ws if w not in puts]
        ctx.require(not rest, 'C04.S1', 'submitting writes nothing but the pending queue [%s]' % cond_str(p), rest[0].site if rest else None,
                    [str(w) for w in rest][:3], key='C04.S1|writes')
        ok = len(puts) == 1 and puts[0].value[2][1:] == (V('order'),)
        ctx.require(ok, 'C04.S1', 'submit_order enqueues the order exactly once on its portfolio\'s queue [%s]' % cond_str(p),
                    puts[0].site if puts else ctx.fn(qn).site(), '%d puts' % len(puts), key='C04.S1|put')
        calls = [e for e in p.flat_events() if e.kind == 'call' and any(c.split('.')[0] in ('SimulatedBroker', 'Portfolio', 'PositionHandler', 'Position') for c in e.callee)]
        ctx.require(not calls, 'C04.S1', 'submitting triggers no fill or transfer [%s]' % cond_str(p), calls[0].site if calls else None,
                    [str(c) for c in calls][:2], key='C04.S1|calls')
    # who enqueues / dequeues
    M = ctx.M
    puts, gets = [], []
    # names that denote the queue table or one of its queues, per function; handed-over arguments make the callee's parameter such a name (fixpoint)
    alias = {fn.qn: set() for fn in M.all_funcs()}

    def denotes(e, al):
        while isinstance(e, ast.Subscript) or (isinstance(e, ast.Call) and isinstance(e.func, ast.Attribute) and e.func.attr in ('values', 'items', 'keys', 'get')):
            e = e.value if isinstance(e, ast.Subscript) else e.func.value
        return (isinstance(e, ast.Attribute) and e.attr == 'open_orders') or (isinstance(e, ast.Name) and e.id in al)
    changed = True
    rounds = 0
    while changed and rounds < 6:
        changed = False
        rounds += 1
        for fn in M.all_funcs():
            al = alias[fn.qn]
            n0 = len(al)
            for n in ast.walk(fn.node):
                if isinstance(n, (ast.For, ast.comprehension)) and denotes(n.iter, al):
                    al |= {x.id for x in ast.walk(n.target) if isinstance(x, ast.Name)}
                elif isinstance(n, ast.Assign) and denotes(n.value, al):
                    al |= {x.id for t in n.targets for x in ast.walk(t) if isinstance(x, ast.Name)}
                elif isinstance(n, ast.Call):
                    hits = [(i_, a) for i_, a in enumerate(n.args) if denotes(a, al)] + [(k.arg, k.value) for k in n.keywords if k.arg and denotes(k.value, al)]
                    if hits:
                        try:
                            tg, how, _ = M.resolve_any(fn, n)
                        except Exception:
                            tg = []
                        for t in tg:
                            ps_ = t.pos_params
                            if t.cls is not None and not t.is_static and ps_ and ps_[0] in ('self', 'cls') and isinstance(n.func, ast.Attribute):
                                ps_ = ps_[1:]
                            for i_, a in hits:
                                pname = i_ if isinstance(i_, str) else (ps_[i_] if i_ < len(ps_) else None)
                                if pname and pname not in alias.setdefault(t.qn, set()):
                                    alias[t.qn].add(pname)
                                    changed = True
            if len(al) != n0:
                changed = True
    for fn in M.all_funcs():
        al = alias[fn.qn]
        for n in ast.walk(fn.node):
            if isinstance(n, ast.Call) and isinstance(n.func, ast.Attribute) and (mentions_attr(n.func.value, 'open_orders') or
                                                                                    (isinstance(n.func.value, ast.Name) and n.func.value.id in al)):
                if n.func.attr in ('put', 'put_nowait'):
                    puts.append((fn, n))
                elif n.func.attr in ('get', 'get_nowait'):
                    gets.append((fn, n))
    ctx.floor('C04.S3', 'enqueue sites', len(puts), 1)
    ctx.floor('C04.S3', 'dequeue sites', len(gets), 1)
    for fn, n in puts:
        ctx.require(fn.qn == 'SimulatedBroker.submit_order', 'C04.S3', 'orders are enqueued only by submit_order (%s)' % fn.qn, fn.site(n), key='C04.S3|put|%s' % fn.qn)
    from ..lib import private_closure
    upd = private_closure(M, ['SimulatedBroker.update'], same_class=False)
    for fn, n in gets:
        ctx.require(fn.qn in upd or (fn.cls is not None and fn.cls.name == 'SimulatedBroker' and fn.name.startswith('_')), 'C04.S3',
                    'orders are dequeued only inside the broker update (%s)' % fn.qn, fn.site(n), key='C04.S3|get|%s' % fn.qn)
    ws = writers_of_attr(M, 'open_orders')
    for w in ws:
        ok = w.fn.cls is not None and w.fn.cls.name in M.owner_family('SimulatedBroker')
        ctx.require(ok, 'C04.S3', 'pending queues are touched only by the broker (%s)' % w.fn.qn, w.where, key='C04.S3|writer|%s' % w.fn.qn)
        if w.how.startswith('assign:elem'):
            v = w.node.value if isinstance(w.node, ast.Assign) else None
            name = M.ext_name(w.fn.mod, v.func) if isinstance(v, ast.Call) else None
            ctx.require(name == 'queue.Queue', 'C04.S3', 'each portfolio gets a FIFO queue.Queue', w.where, 'queue type is %s' % name, key='C04.S3|fifo')
    inside_update = upd      # update and the private helpers only it reaches
    for fn, n in calls_named(M, '_execute_order'):
        ctx.require(fn.qn in inside_update, 'C04.S3', '_execute_order is called only from update (%s)' % fn.qn, fn.site(n), key='C04.S3|exec-caller|%s' % fn.qn)
    # Order.direction is the sign of the quantity, written once
    ws = [w for w in writers_of_attr(M, 'direction') if w.fn.cls is not None and w.fn.cls.name == 'Order']
    oc_ = M.cls('Order')
    dp_ = oc_.lookup('direction') if oc_ is not None else None
    if not ws and not (dp_ is not None and dp_.is_property):
        # no assignment of Order.direction anywhere and no property of that name in the class body: the order keeps its terms some other way (a record behind
        # attributes attached to the class) - where the direction comes from is not read here
        ctx.undecided('C04.S5', 'Order.direction = sign of the quantity, set once in the constructor', oc_.path if oc_ is not None else None,
                      'no assignment of a direction field and no direction property in class Order')
    elif not ws and dp_ is not None and dp_.is_property:
        # the direction is read off a record of the order's terms through a property: what the property answers on a freshly built order
        from ..lib import fresh_object_summaries
        try:
            ip_, dps_ = fresh_object_summaries(ctx, 'Order', 'direction')
            vals_ = [p_.value for p_ in dps_ if p_.outcome == 'return']
        except Exception:
            vals_ = []
        good_ = bool(vals_) and all(v_ is not None and v_[0] == 'call' and v_[1] in (('ext', 'COPYSIGN'), ('ext', 'SIGN')) and v_[2][-1] == V('quantity') for v_ in vals_)
        if good_:
            ctx.holds('C04.S5', 'Order.direction = sign of the quantity (a property over the terms fixed by the constructor)', dp_.site())
        else:
            ctx.undecided('C04.S5', 'Order.direction = sign of the quantity, set once in the constructor', dp_.site(),
                          'direction is a property answering %s on a fresh order' % [fmt(v_)[:60] if v_ else None for v_ in vals_][:2])
    else:
        ctx.require(len(ws) == 1 and w_is_copysign(ctx, 'Order.__init__'), 'C04.S5', 'Order.direction = sign of the quantity, set once in the constructor',
                    ws[0].where if ws else None, key='C04.S5|direction')


def w_is_copysign(ctx, qn):
    ps = summarise(ctx, qn, policy=default_policy)
    for p in normal(ps):
        ws = heap_writes(p, 'direction')
        if len(ws) != 1:
            return False
        v = ws[0].value
        if not (v[0] == 'call' and v[1] in (('ext', 'COPYSIGN'), ('ext', 'SIGN')) and v[2][-1] == V('quantity')):
            return False
    return True


# ---------------------------------------------------------------------------------------------- S2, S3, S5
def drain_policy(caller, callee, depth):
    """inline private helpers of the broker except _execute_order, so that an extracted drain helper is seen through"""
    if callee.qn == 'SimulatedBroker._execute_order':
        return False
    return default_policy(caller, callee, depth)


def s2_s3_update(ctx):
    qn = 'SimulatedBroker.update'
    fn = ctx.fn(qn)
    ps = summarise(ctx, qn, policy=drain_policy)
    nps = normal(ps)
    # fills prepared as callables and applied later: each must be bound to the order and the portfolio it was created for
    from .c16 import late_bound_loop_lambdas
    for site_, names_, src_ in late_bound_loop_lambdas(ctx, qn):
        if '_execute_order' in src_:
            ctx.violation('C04.S3', 'each order is executed against its own portfolio at the update time', site_,
                          'the deferred fill reads the loop variable%s %s when it is finally called (after the loop has moved on)' % ('s' if len(names_) > 1 else '', ', '.join(names_)),
                          key='C04.S3|late-binding')
    open_paths = closed_paths = 0
    for p in ps:
        # the clock is set to dt before anything else and never rewritten
        cw = heap_writes(p, 'current_dt', into_loops=True)
        cw = [w for w in cw if w.loc == A('self', 'current_dt')]
        # nothing that writes, and nothing that reads the clock, comes before the clock is set (entering a helper, a wrapper's book-keeping of locals do not count)
        flat_ = [e_ for e_ in p.flat_events() if e_.kind in ('write', 'call')]
        before_ = flat_[:flat_.index(cw[0])] if cw and cw[0] in flat_ else flat_
        clk_ = A('self', 'current_dt')
        early = [e_ for e_ in before_ if (e_.kind == 'write' and not e_.d.get('local')) or
                 (e_.kind == 'call' and any(isinstance(a_, tuple) and any(s_ == clk_ for s_ in T.subterms(a_)) for a_ in list(e_.args.values()) + [e_.d.get('recv') or ()]))]
        ctx.require(len(cw) == 1 and cw[0].value == V('dt') and not early, 'C04.S2',
                    'update first sets the broker clock to dt and never rewrites it [%s]' % cond_str(p)[:80], cw[0].site if cw else fn.site(),
                    key='C04.S2|clock')
    for p in nps:
        is_open = None
        for c, v, _ in p.conds:
            if c[0] == 'call' and c[1][0] == 'fn' and c[1][1].endswith('.is_open_at_datetime'):
                t = c[2][1] if len(c[2]) > 1 else None
                if t == V('dt'):
                    is_open = v
        gets, execs = [], []
        for e, loops, conds in nested_events(p):
            if e.kind == 'write' and e.how in ('mut:get', 'mut:get_nowait') and loc_attr(e.loc) == 'open_orders':
                gets.append((e, loops, conds))
            if e.kind == 'call' and 'SimulatedBroker._execute_order' in e.callee:
                execs.append((e, loops, conds))
        if is_open is None:
            ctx.require(not gets and not execs, 'C04.S2', 'dequeue and fill happen only under the exchange-hours test at the update time [%s]' % cond_str(p)[:80],
                        (gets or execs)[0][0].site if (gets or execs) else fn.site(),
                        'path does not test is_open_at_datetime(dt)', key='C04.S2|guard')
            continue
        if not is_open:
            closed_paths += 1
            # what the clause protects: the pending orders, and everything a fill changes (cash, holdings, history).  Re-marking prices, the clock, the broker's own
            # book-keeping (what it remembers about which assets are held) and the removal of a position that is already flat are not fills.
            fill_state = {'open_orders', 'cash', 'cash_balances', 'history', 'buy_quantity', 'sell_quantity', 'avg_bought', 'avg_sold', 'buy_commission', 'sell_commission', 'net_quantity'}
            bad = [w for w in heap_writes(p) if loc_attr(w.loc) in fill_state or (loc_attr(w.loc) in ('positions', '_positions') and w.how != 'del')]
            calls = [e for e in p.flat_events() if e.kind == 'call' and any(c in ('SimulatedBroker._execute_order', 'Portfolio.transact_asset') for c in e.callee)]
            ctx.require(not bad and not calls and not gets, 'C04.S2', 'outside exchange hours the update leaves every pending order untouched and fills nothing',
                        (bad[0].site if bad else (calls[0].site if calls else fn.site())), [str(x) for x in (bad + calls)][:3], key='C04.S2|closed')
            continue
        open_paths += 1
        # ---- the drain
        if len(gets) != 1:
            # the dequeue is not one direct site under update's own loops (a draining generator, deferred callables, ...): nothing is claimed either way
            ctx.undecided('C04.S3', 'one dequeue site in the open branch', gets[0][0].site if gets else fn.site(), '%d direct dequeue sites' % len(gets))
            continue
        g, gloops, gconds = gets[0]
        outer = gloops[0][0] if gloops else None

        def narrowed(t):
            return any(s_[0] == 'slice' or (s_[0] == 'comp' and any(g_[2] for g_ in s_[3])) or
                       (s_[0] == 'call' and s_[1] in (('ext', 'itertools.islice'), ('ext', 'builtins.filter'), ('ext', 'itertools.takewhile'))) for s_ in T.subterms(t))
        full = ('self.portfolios', 'self.portfolios.keys()', 'self.open_orders', 'self.open_orders.keys()', 'self.open_orders.items()', 'self.portfolios.items()',
                'self.portfolios.values()', 'self.open_orders.values()')
        it_txt = fmt(outer.iter) if outer is not None else ''
        for w_ in ('ENUMERATE(', 'LIST(', 'TUPLE('):
            if it_txt.startswith(w_) and it_txt.endswith(')'):
                it_txt = it_txt[len(w_):-1]
        ok = outer is not None and it_txt in full
        if not ok and not (outer is not None and narrowed(outer.iter)):
            ctx.undecided('C04.S3', 'the drain visits the queue of every portfolio', outer.site if outer else g.site,
                          'unrecognised iteration: %s' % (fmt(outer.iter)[:120] if outer else None))
            continue
        ctx.require(ok, 'C04.S3', 'the drain visits the queue of every portfolio', outer.site if outer else g.site,
                    'outer loop iterates %s' % (fmt(outer.iter) if outer else None), key='C04.S3|drain-outer')
        if outer is not None:
            outs = sorted({b.outcome for b in outer.paths})
            ctx.require(outs == ['fall'], 'C04.S3', 'the drain never leaves the portfolio loop early (no break/return/raise inside it)', outer.site,
                        'body outcomes: %s' % outs, key='C04.S3|drain-early-exit')
        if len(gloops) >= 2:
            inner = gloops[1][0]
            t = fmt(inner.iter) if inner.iter is not None else ''
            qtxt = fmt(g.loc)
            ok = ((not inner.is_for) and ('.empty()' in t or t in ('True', 'true'))) or (inner.is_for and t in ('RANGE(%s.qsize())' % qtxt, 'RANGE(0, %s.qsize())' % qtxt))
            if not ok and not (inner.is_for and t.startswith('RANGE(')):
                ctx.undecided('C04.S3', 'each queue is drained until it is empty', inner.site, 'inner loop test: %s' % t[:120])
            else:
                ctx.require(ok, 'C04.S3', 'each queue is drained until it is empty', inner.site, 'inner loop test: %s' % t, key='C04.S3|drain-until-empty')
            extra = [c for c in gconds if c not in [x for x in p.conds] and '.empty()' not in fmt(c[0])]
            ctx.require(not extra, 'C04.S3', 'every queued order is taken unconditionally', g.site, [fmt(c[0]) for c in extra], key='C04.S3|drain-cond')
        else:
            ctx.violation('C04.S3', 'each queue is drained until it is empty', g.site, 'the dequeue is not inside a per-queue loop (one order per update at most)',
                          key='C04.S3|drain-until-empty')
        # ---- sort and execution loop
        same_loop = bool(execs) and all(len(x_[1]) == 1 and x_[1][0][0] is execs[0][1][0][0] for x_ in execs)
        if not same_loop:
            ctx.undecided('C04.S3', 'orders are executed at one site, in one loop over the drained batch', execs[0][0].site if execs else fn.site(),
                          '%d execution sites' % len(execs))
            continue
        x, xloops, xconds = execs[0]
        lp, body = xloops[0]
        for b in lp.paths:
            if b.outcome in ('raise',):
                continue
            n = [e for e in b.flat_events() if e.kind == 'call' and 'SimulatedBroker._execute_order' in e.callee]
            ctx.require(len(n) == 1 and b.outcome == 'fall', 'C04.S3', 'every drained order is executed exactly once [%s]' % cond_str(b), lp.site,
                        '%d executions, outcome %s' % (len(n), b.outcome), key='C04.S3|exec-once')
        it = lp.iter
        batch = None
        srt_key = rev = None
        sort_site = lp.site
        if it[0] == 'call' and it[1] == ('ext', 'SORTED') and it[2]:
            batch = it[2][0]
            kws = dict(it[3])
            srt_key, rev = kws.get('key'), kws.get('reverse')
        else:
            # in-place list.sort(key=...)
            srt = [e for e in p.flat_events() if e.kind == 'call' and e.callee == ['meth:sort']]
            if len(srt) == 1 and T.teq(srt[0].d.get('recv') or ZERO, _strip_sort(it)):
                batch = _strip_sort(it)
                srt_key, rev = kw(srt[0], 'key'), kw(srt[0], 'reverse')
                sort_site = srt[0].site
        if batch is None and it[0] == 'call' and it[1] == ('ext', 'ZIP') and len(it[2]) >= 2:
            # parallel lists: the orders and their portfolio tags must go through the sort TOGETHER
            def sorted_(t):
                return (t[0] == 'call' and t[1] in (('ext', 'SORTED'), ('ext', 'MUTATED_sort'))) or any(e_.kind == 'call' and e_.callee == ['meth:sort'] and
                                                                                                         T.teq(e_.d.get('recv') or ZERO, _strip_sort(t)) for e_ in p.flat_events())
            with_orders = [t for t in it[2] if any(T.teq(s_, g.value) for s_ in T.subterms(t))]
            others = [t for t in it[2] if t not in with_orders]
            if with_orders and others and any(sorted_(t) for t in with_orders) and not all(sorted_(t) for t in others):
                ctx.violation('C04.S3', 'each order is executed against its own portfolio at the update time', lp.site,
                              'the orders are sorted but the parallel list of their portfolios is not: after the sort an order is paired with another order\'s portfolio',
                              key='C04.S3|exec-args')
                continue
        if batch is None:
            # the loop runs over the drained list itself: it was never ordered - or over something this rule does not read (grouping objects, chained buckets)
            app0 = [t for t in T.subterms(it) if t[0] == 'call' and t[1] == ('ext', 'APPENDED')]
            plain = app0 and it[0] in ('accum', 'call') and not any(s_[0] == 'call' and s_[1][0] == 'ext' and ('chain' in s_[1][1] or 'groupby' in s_[1][1]) for s_ in T.subterms(it))
            # (a path that skipped the sort after a test ABOUT the batch - already in order? fewer than two? - is an argument about values, not an unsorted batch)
            tested = [c_ for c_, _v, _s in p.conds if any(T.teq(s_, it) for s_ in T.subterms(c_))]
            if plain and not tested and not any(e.kind == 'call' and e.callee == ['meth:sort'] for e in p.flat_events()):
                ctx.violation('C04.S5', 'the batch is sorted before execution', lp.site, 'loop iterates %s' % fmt(it)[:160], key='C04.S5|sorted')
            elif plain and tested:
                ctx.undecided('C04.S5', 'the batch is sorted before execution', lp.site, 'the unsorted batch is executed only after the test %s on it: whether that test implies sells-first order is not decided'
                              % fmt(tested[0])[:120])
            else:
                ctx.undecided('C04.S5', 'the batch is sorted before execution', lp.site, 'loop iterates %s' % fmt(it)[:160])
            continue
        # what one batch element is: a pair or a record holding the dequeued order and the portfolio it came from (possibly more)
        app = [t for t in T.subterms(batch) if t[0] == 'call' and t[1] == ('ext', 'APPENDED')]
        ev_ = app[0][2][1] if len(app) == 1 else None
        el = ('elem', it, lp.id)
        comps = {}        # component accessor term(s) -> component value
        if ev_ is not None and ev_[0] == 'tuple':
            for i_, v_ in enumerate(ev_[1]):
                comps[('sub', el, num(i_))] = v_
        elif ev_ is not None and ev_[0] == 'new':
            from ..symex import NT_FIELDS
            for i_, (f_, v_) in enumerate(ev_[2]):
                comps[('attr', el, f_)] = v_
            for i_, f_ in enumerate(NT_FIELDS.get(ev_[1], ())):
                comps[('sub', el, num(i_))] = dict(ev_[2]).get(f_)
        elif ev_ is not None and T.teq(ev_, g.value):
            comps[el] = ev_
        order_forms = [a_ for a_, v_ in comps.items() if v_ is not None and T.teq(v_, g.value)]
        keyed = [t for t in T.subterms(batch) if t[0] == 'call' and t[1] == ('ext', 'SETITEM') and len(t[2]) == 3
                 and any(T.teq(s_, g.value) for s_ in T.subterms(t[2][2]))]
        if not app and keyed and any(T.teq(s_, g.value) for s_ in T.subterms(keyed[0][2][1])):
            # a keyed batch holds one entry per key: a key computed from the order's own (caller-settable) fields lets a later order silently replace an earlier one
            ctx.violation('C04.S3', 'the executed batch keeps every dequeued order (nothing dropped or added)', g.site,
                          'the batch is a mapping keyed by %s: two pending orders with equal keys collapse into one and the other is dropped' % fmt(keyed[0][2][1])[:120],
                          key='C04.S3|batch')
            continue
        if not app:
            ctx.undecided('C04.S3', 'the executed batch is built by appending the dequeued orders to a fresh list', g.site,
                          'unrecognised construction of the batch: %s' % fmt(batch)[:200])
            continue
        if not order_forms:
            ctx.violation('C04.S3', 'the executed batch is exactly the list of dequeued orders (nothing dropped or added)', g.site,
                          'batch elements do not carry the dequeued order: %s' % fmt(ev_)[:160] if ev_ else 'no element', key='C04.S3|batch')
            continue
        # the portfolio the order was queued for: the key of the queue it was taken from
        qkey = g.loc[2] if g.loc[0] == 'sub' else None
        qknown = True
        if g.loc[0] == 'sub' and g.loc[2] == num(1) and g.loc[1][0] == 'elem' and g.loc[1][1][0] == 'call' and g.loc[1][1][1] == ('meth', 'items'):
            qkey = ('sub', g.loc[1], num(0))          # for key, q in table.items(): q.get()  - the queue's key is the pair's first component
        elif g.loc[0] == 'elem' or (g.loc[0] == 'sub' and g.loc[1][0] == 'elem'):
            qkey, qknown = None, False                 # the queue is reached without its key (values(), a list of queues): the tag is not compared
        tag_forms = [a_ for a_, v_ in comps.items() if v_ is not None and qkey is not None and T.teq(v_, qkey)]
        roots = [t for t in T.subterms(batch) if t[0] == 'list' and t[1] == ()]
        ctx.require(len(app) == 1 and len(roots) >= 1, 'C04.S3', 'the executed batch is exactly the list of dequeued orders (nothing dropped or added)', g.site,
                    'batch = %s' % fmt(batch)[:200], key='C04.S3|batch')
        if not qknown:
            ctx.undecided('C04.S3', 'each order is tagged with the portfolio whose queue it came from', g.site, 'queue reached as %s' % fmt(g.loc)[:80])
        else:
            ctx.require(bool(tag_forms), 'C04.S3', 'each order is tagged with the portfolio whose queue it came from', g.site,
                        'element %s, queue key %s' % (fmt(ev_)[:100], fmt(qkey) if qkey else None), key='C04.S3|tag')
        # ---- the sort key applied to one element must be the direction of its order (ascending: sells -1 before buys +1; stable: submission order per side)
        def key_of(kf):
            """value of the key function on the element `el`, as a term (or None)"""
            if kf is None:
                return None
            if kf[0] == 'lambda' and kf[1] == 1:
                return T.replace(kf[2], lambda t: el if t == ('bv', 0) else None)
            if kf[0] == 'call' and kf[1] == ('ext', 'operator.attrgetter') and kf[2] and all(z[0] == 'str' for z in kf[2]):
                def chain(spec):
                    t = el
                    for part in spec.split('.'):
                        t = ('attr', t, part)
                    return t
                vals = [chain(z[1]) for z in kf[2]]
                return vals[0] if len(vals) == 1 else ('tuple', tuple(vals))
            if kf[0] == 'call' and kf[1] == ('ext', 'operator.itemgetter') and kf[2]:
                vals = [('sub', el, z) for z in kf[2]]
                return vals[0] if len(vals) == 1 else ('tuple', tuple(vals))
            if kf[0] == 'fn' and kf[1] in ctx.M.funcs:
                kfn = ctx.M.funcs[kf[1]]
                if len(kfn.pos_params) == 1:
                    kps = [q for q in summarise(ctx, kfn, policy=default_policy, args={kfn.pos_params[0]: ev_}) if q.outcome == 'return']
                    if len(kps) == 1:
                        # expressed on the element value itself: map component values back to accessors
                        return ('on-value', kps[0].value)
            return None
        kv = key_of(srt_key)

        def norm_acc(t):
            # attribute/index access into the element value -> the component value
            if ev_ is None:
                return t
            def f(z):
                if z in comps and comps[z] is not None:
                    return comps[z]
                return None
            return T.replace(t, f)
        if kv is None:
            ctx.undecided('C04.S5', 'the sort key is exactly the direction of the order', sort_site, 'key=%s' % (fmt(srt_key)[:120] if srt_key else None))
        else:
            want = ('attr', g.value, 'direction')
            got = kv[1] if kv[0] == 'on-value' else norm_acc(kv)
            parts = list(got[1]) if got[0] == 'tuple' else [got]
            # (an Order's direction IS copysign(1, quantity): a direction computed on demand from the quantity reads that way)
            want2 = ('call', ('ext', 'COPYSIGN'), (T.num(1), ('attr', g.value, 'quantity')), ())
            head_ok = bool(parts) and (T.teq(parts[0], want) or parts[0] == want2)
            # tie-breakers that follow the direction: harmless only if they reproduce the drain order (enumeration index of the portfolio loop, a running position)
            extras_bad = [q for q in parts[1:] if any(T.teq(s_, g.value) for s_ in T.subterms(q))]
            extras_unknown = [q for q in parts[1:] if q not in extras_bad and not (qkey is not None and any(T.teq(s_, qkey) or (s_[0] == 'elem' and outer is not None and s_[-1] == outer.id) for s_ in T.subterms(q)))]
            if head_ok and not parts[1:]:
                ctx.holds('C04.S5', 'the sort key is exactly the direction of the order (stable sort: sells first, submission order within a side)', sort_site)
            elif (not head_ok or extras_bad) and any(s_[0] in ('havoc', 'lc') or (s_[0] == 'call' and (s_[1][0] == 'fn' or s_[1] == ('ext', 'APPLY'))) for s_ in T.subterms(got)):
                # the key is computed by something the engine did not read to the end (a forking lambda body, a helper left as a call)
                ctx.undecided('C04.S5', 'the sort key is exactly the direction of the order', sort_site, 'key=%s' % fmt(srt_key)[:120])
            elif not head_ok or extras_bad:
                ctx.violation('C04.S5', 'the sort key is exactly the direction of the order (stable sort: sells first, submission order within a side)', sort_site,
                              'key=%s' % fmt(srt_key)[:160], key='C04.S5|key')
            else:
                ctx.undecided('C04.S5', 'the sort key is the direction of the order; further components only reproduce the drain order', sort_site, 'key=%s' % fmt(srt_key)[:160])
        ctx.require(rev is None or rev == T.FALSE, 'C04.S5', 'ascending sort (sells, direction -1, first)', sort_site, 'reverse=%s' % (fmt(rev) if rev else None),
                    key='C04.S5|reverse')
        okx = x.args.get('order') in order_forms and x.args.get('dt') == V('dt') and (x.args.get('portfolio_id') in tag_forms)
        ctx.require(okx, 'C04.S3', 'each order is executed against its own portfolio at the update time', x.site, {k: fmt(v)[:60] for k, v in x.args.items()},
                    key='C04.S3|exec-args')
        ctx.sample({'rule': 'C04.S3/S5', 'batch': fmt(batch)[:200], 'sort_key': fmt(srt_key) if srt_key else None})
    ctx.require(open_paths >= 1 and closed_paths >= 1, 'C04.S2', 'update has an in-hours and an out-of-hours path', fn.site(),
                '%d open, %d closed' % (open_paths, closed_paths), key='C04.S2|paths')


def _strip_sort(t):
    while t[0] == 'call' and t[1] == ('ext', 'MUTATED_sort'):
        t = t[2][0]
    return t


# ---------------------------------------------------------------------------------------------- S4
def s4_in_full(ctx):
    qn = 'SimulatedBroker._execute_order'
    ps = summarise(ctx, qn, policy=default_policy)
    n = 0
    for p in normal(ps):
        cs = [e for e in p.flat_events() if e.kind == 'call' and 'Portfolio.transact_asset' in e.callee]
        if not ctx.require(len(cs) == 1, 'C04.S4', 'an executed order produces exactly one fill [%s]' % cond_str(p), cs[0].site if cs else ctx.fn(qn).site(),
                           __import__('qsverif.lib', fromlist=['read_marker']).read_marker(ctx, p) + '%d fills' % len(cs), key='C04.S4|one-fill'):
            continue
        n += 1
        txn = cs[0].args.get('txn')
        if not (txn is not None and txn[0] == 'new'):
            ctx.undecided('C04.S4', 'the fill is a freshly built Transaction', cs[0].site, fmt(txn) if txn else None)
            continue
        f = dict(txn[2])
        ctx.require(f.get('quantity') == A('order', 'quantity'), 'C04.S4', 'the fill carries the full order quantity [%s]' % cond_str(p), cs[0].site,
                    'quantity=%s' % fmt(f.get('quantity', ZERO)), key='C04.S4|full')
        ctx.require(f.get('asset') == A('order', 'asset'), 'C04.S4', 'the fill is in the ordered asset', cs[0].site, key='C04.S4|asset')
    ctx.floor('C04.S4', 'filling paths of _execute_order', n, 2)


# ---------------------------------------------------------------------------------------------- S6
def minute_of(t):
    return t[0] * 60 + t[1]


def s6_hours(ctx):
    qn = 'SimulatedExchange.is_open_at_datetime'
    fn = ctx.fn(qn)
    # constants
    ps = summarise(ctx, 'SimulatedExchange.__init__', policy=default_policy)
    consts = {}
    for p in normal(ps):
        for w in heap_writes(p):
            if loc_attr(w.loc) in ('open_dt', 'close_dt'):
                v = w.value
                if v[0] == 'call' and v[1] == ('ext', 'datetime.time') and all(a[0] == 'num' for a in v[2]):
                    a = [int(x[1]) for x in v[2]] + [0, 0]
                    consts[loc_attr(w.loc)] = (a[0], a[1]) if not any(a[2:4]) else None
    ctx.require(consts.get('open_dt') == (14, 30) and consts.get('close_dt') == (21, 0), 'C04.S6', 'exchange opens 14:30 and closes 21:00', fn.site(),
                'open=%s close=%s' % (consts.get('open_dt'), consts.get('close_dt')), key='C04.S6|constants')
    if not (consts.get('open_dt') and consts.get('close_dt')):
        return
    o, c = minute_of(consts['open_dt']), minute_of(consts['close_dt'])
    grid = sorted(set([0, 1, o - 1, o, o + 1, c - 1, c, c + 1, 1439, 12 * 60] + [h * 60 + m for h in range(24) for m in (0, 10, 29, 30, 31, 45, 59)]))
    if ctx.tier == 'thorough':
        grid = list(range(1440))
    n = bad = 0
    first = None
    for wd in range(7):
        for m in grid:
            val = Valuation(nums={'dt.weekday()': wd, 'dt.isoweekday()': wd + 1, 'dt.time()': m, 'self.open_dt': o, 'self.close_dt': c,
                                  'dt.hour': m // 60, 'dt.minute': m % 60, 'dt.second': 0, 'dt.microsecond': 0, 'dt.dayofweek': wd, 'dt.day_of_week': wd,
                                  'self.open_dt.hour': o // 60, 'self.open_dt.minute': o % 60, 'self.close_dt.hour': c // 60, 'self.close_dt.minute': c % 60,
                                  'dt.time().hour': m // 60, 'dt.time().minute': m % 60})
            # (the answer may be put together from other methods of the exchange itself - what phase of the week it is in - and of the records they hand out)
            ps = summarise(ctx, fn, policy=lambda a_, b_, d_: default_policy(a_, b_, d_) or (d_ <= 4 and b_.cls is not None and b_.cls.name == 'SimulatedExchange'
                                                                                           and not b_.name.startswith('__') and b_.qn != fn.qn), oracle=val)
            n += 1
            spec = wd <= 4 and o <= m < c
            res = set()
            for p in ps:
                if p.outcome != 'return':
                    res.add('raise')
                    continue
                tv = val.evalbool(p.value)
                res.add(tv)
            if len(res) != 1 or None in res:
                ctx.undecided('C04.S6', 'is_open_at_datetime is decided by weekday and time of day', fn.site(),
                              'weekday %d, %02d:%02d: result %s depends on %s' % (wd, m // 60, m % 60, sorted(map(str, res)), sorted(set(val.unknown))[:4]))
                return
            if res != {spec}:
                bad += 1
                if first is None:
                    first = 'weekday %d (0=Mon) at %02d:%02d: code says %s, property says %s' % (wd, m // 60, m % 60, 'open' if True in res else 'closed', 'open' if spec else 'closed')
    ctx.require(bad == 0, 'C04.S6', 'exchange hours = Monday-Friday, 14:30 <= t < 21:00 (%d weekday x time-of-day valuations)' % n, fn.site(),
                '%d of %d valuations disagree; first: %s' % (bad, n, first), key='C04.S6|table')
    ctx.sample({'rule': 'C04.S6', 'valuations': n, 'disagreements': bad, 'grid_minutes': len(grid)})
