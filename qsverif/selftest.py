"""Thorough tier: self-test of the checker against the committed corpus of independently written changes (/verif/seeded).

For property P: every seeded defect of P must make P's check report a VIOLATION, and every behaviour-preserving change (of any property)
must leave P's check silent.  Variants are applied to a scratch copy of the tree under analysis (in /dev/shm, removed afterwards); a patch
that no longer applies to the current tree is counted as stale.  The result is evidence about the checker (a kill matrix); it never turns
a run on a correct tree into exit 1."""
import json
import os
import re
import shutil
import subprocess
import tempfile
from concurrent.futures import ThreadPoolExecutor

VERIF = os.path.dirname(os.path.dirname(os.path.abspath(__file__)))
SEEDED = os.path.join(VERIF, 'seeded')


def _one(args):
    pid, root, name, kind = args
    d = tempfile.mkdtemp(prefix='qsst.', dir='/dev/shm' if os.path.isdir('/dev/shm') else None)
    try:
        shutil.copytree(os.path.join(root, 'qstrader'), os.path.join(d, 'qstrader'), ignore=shutil.ignore_patterns('__pycache__'))
        p = subprocess.run(['git', 'apply', '--include=qstrader/*', os.path.join(SEEDED, name, 'patch.diff')], cwd=d, stdout=subprocess.PIPE, stderr=subprocess.STDOUT, text=True)
        if p.returncode != 0:
            return name, kind, 'stale', ''
        env = dict(os.environ, QSVERIF_EVIDENCE_DIR=os.path.join(d, '.ev'), VERIF_TIER='quick')
        try:
            p = subprocess.run([os.path.join(VERIF, 'check'), pid, '--tier', 'quick', '--root', d], cwd=VERIF, env=env, stdout=subprocess.PIPE, stderr=subprocess.STDOUT, text=True,
                               timeout=int(os.environ.get('QSVERIF_VARIANT_TIMEOUT', '300')))
        except subprocess.TimeoutExpired:
            # the engine forks at every call of a helper with several outcomes; a variant that calls one from many places can take minutes (DESIGN 9.1-31c): counted, not waited for
            return name, kind, 'timeout', ''
        m = re.search(r'^%s (HOLDS-ON-DECIDED-CLAUSES|HOLDS|VIOLATION|ANALYSIS-ERROR) tier' % pid, p.stdout, re.M)
        verdict = m.group(1) if m else 'ANALYSIS-ERROR'
        rules = sorted(set(re.findall(r'^  rule=(\S+)', p.stdout, re.M)))
        return name, kind, verdict, ','.join(rules)
    finally:
        shutil.rmtree(d, ignore_errors=True)


def run_selftest(pid, root):
    jobs = []
    for name in sorted(os.listdir(SEEDED)):
        mp = os.path.join(SEEDED, name, 'meta.json')
        if not os.path.exists(mp):
            continue
        with open(mp) as fh:
            meta = json.load(fh)
        preserving = meta.get('kind', '').startswith('behaviour-preserving')
        if preserving:
            jobs.append((pid, root, name, 'preserving'))
        elif meta.get('property') == pid:
            jobs.append((pid, root, name, 'breaking'))
    res = {'variants': len(jobs), 'breaking_total': 0, 'breaking_fired': 0, 'preserving_total': 0, 'preserving_silent': 0, 'stale': 0, 'timed_out': [],
           'missed': [], 'false_alarms': [], 'undecided_on_preserving': [], 'fired': {}}
    with ThreadPoolExecutor(min(14, (os.cpu_count() or 4))) as ex:
        for name, kind, verdict, rules in ex.map(_one, jobs):
            if verdict == 'stale':
                res['stale'] += 1
                continue
            if verdict == 'timeout':
                res['timed_out'].append(name)
                continue
            if kind == 'breaking':
                res['breaking_total'] += 1
                if verdict == 'VIOLATION':
                    res['breaking_fired'] += 1
                    res['fired'][name] = rules
                else:
                    res['missed'].append(name)
            else:
                res['preserving_total'] += 1
                if verdict in ('HOLDS', 'HOLDS-ON-DECIDED-CLAUSES'):
                    res['preserving_silent'] += 1
                    if verdict != 'HOLDS':
                        res['undecided_on_preserving'].append(name)
                else:
                    res['false_alarms'].append('%s (%s: %s)' % (name, verdict, rules))
    return res
