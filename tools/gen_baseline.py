#!/usr/bin/env python3
"""Regenerate qsverif/baseline_names.json from the pinned tree: the symbol table (classes -> methods -> parameters, module functions)
plus, per function, a fingerprint (identifiers its body mentions) used ONLY to pair a renamed helper with its old name.
usage: gen_baseline.py [root=/repo]"""
import ast, json, os, sys

sys.path.insert(0, os.path.dirname(os.path.dirname(os.path.abspath(__file__))))
from qsverif.model import load_sources, fingerprint   # noqa

root = sys.argv[1] if len(sys.argv) > 1 else '/repo'
out = {'classes': {}, 'modfuncs': {}, 'prints': {}, 'fields': {}, 'modules': {}}
for rel, src in sorted(load_sources(root).items()):
    t = ast.parse(src)
    mod = rel[:-3].replace('/', '.')
    out['modules'][rel] = sorted({n.name for n in ast.walk(t) if isinstance(n, (ast.FunctionDef, ast.ClassDef))})
    for st in t.body:
        if isinstance(st, ast.ClassDef):
            q = '%s.%s' % (mod, st.name)
            out['classes'][q] = {}
            out['fields'][q] = sorted({n.attr for n in ast.walk(st) if isinstance(n, ast.Attribute) and isinstance(n.ctx, ast.Store) and isinstance(n.value, ast.Name) and n.value.id == 'self'}
                                      | {t.id for b in st.body if isinstance(b, ast.Assign) for t in b.targets if isinstance(t, ast.Name)})
            for m in st.body:
                if isinstance(m, ast.FunctionDef):
                    out['classes'][q][m.name] = [a.arg for a in m.args.posonlyargs + m.args.args + m.args.kwonlyargs]
                    out['prints']['%s.%s' % (q, m.name)] = fingerprint(m)
        elif isinstance(st, ast.FunctionDef):
            out['modfuncs']['%s.%s' % (mod, st.name)] = [a.arg for a in st.args.posonlyargs + st.args.args + st.args.kwonlyargs]
            out['prints']['%s.%s' % (mod, st.name)] = fingerprint(st)
p = os.path.join(os.path.dirname(os.path.dirname(os.path.abspath(__file__))), 'qsverif', 'baseline_names.json')
json.dump(out, open(p, 'w'), indent=0, sort_keys=True)
print(len(out['classes']), 'classes', sum(len(v) for v in out['classes'].values()), 'methods', len(out['modfuncs']), 'module functions')
