#!/usr/bin/env python3
"""Re-run all 19 checks against every round-3 patch (tools/matrix.py), write the outcome into each seeded/<id>/meta.json and print the figures used in
DESIGN.md 9.1-15 / 10.5 / 10.6.  usage: tools/refresh_round3.py"""
import glob, json, os, re, subprocess, sys
V = os.path.dirname(os.path.dirname(os.path.abspath(__file__)))
def mx(dirs):
    out = subprocess.run([sys.executable, os.path.join(V, 'tools', 'matrix.py')] + dirs, stdout=subprocess.PIPE, stderr=subprocess.DEVNULL, text=True).stdout
    return json.loads(out)
D = sorted(glob.glob(os.path.join(V, 'seeded', 'C??-d3_?')))
P = sorted(glob.glob(os.path.join(V, 'seeded', 'C??-d3_?-fixed')) + glob.glob(os.path.join(V, 'seeded', 'C??-r9')) + glob.glob(os.path.join(V, 'seeded', 'C??-r1[0-2]')))
m = mx(D)
own = other = 0
none = []
for d, v in sorted(m.items()):
    pid = re.search(r'(C\d\d)', os.path.basename(d)).group(1)
    mp = os.path.join(d, 'meta.json'); meta = json.load(open(mp))
    rules = v.get('_rules', {})
    ownr = rules.get(pid, [])
    others = sorted(p for p, x in v.items() if p != '_rules' and x == 'VIOLATION' and p != pid)
    und = sorted(p for p, x in v.items() if p != '_rules' and x == 'HOLDS-ON-DECIDED-CLAUSES')
    meta['caught_by'] = {'own_property_check': ownr, 'other_checks': others, 'own_verdict': v.get(pid), 'undecided_in': und}
    json.dump(meta, open(mp, 'w'), indent=1)
    own += bool(ownr); other += bool(others and not ownr)
    if not ownr and not others:
        none.append(os.path.basename(d))
print('defects: %d by own check, %d only by another, %d not decided: %s' % (own, other, len(none), ', '.join(none)))
p = mx(P)
bad, und_items = [], []
for d, v in sorted(p.items()):
    mp = os.path.join(d, 'meta.json'); meta = json.load(open(mp))
    viol = sorted(q for q, x in v.items() if q != '_rules' and x in ('VIOLATION', 'ANALYSIS-ERROR'))
    und = sorted(q for q, x in v.items() if q != '_rules' and x == 'HOLDS-ON-DECIDED-CLAUSES')
    if viol:
        bad.append('%s %s' % (os.path.basename(d), viol))
    if und:
        und_items.append('%s (%s)' % (os.path.basename(d), ', '.join(und)))
    meta['all_19_checks'] = ('no violation' if not viol else 'VIOLATION in %s' % viol) + ('; no undecided clause' if not und else '; undecided clause(s) in %s' % ', '.join(und)) + ' (tools/matrix.py at the commit that added this entry)'
    json.dump(meta, open(mp, 'w'), indent=1)
print('preserving: %d of %d with a violation %s; %d with an undecided clause' % (len(bad), len(p), bad, len(und_items)))
print('UNDECIDED-LIST: ' + '; '.join(und_items))
