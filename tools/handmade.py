#!/usr/bin/env python3
"""Hand-written mutants (DESIGN Appendix B ideas) as anchored textual edits: (property, file, old, new, note).
`old` must occur exactly once in the file.  usage: handmade.py [--suite]  -> table: mutant, own check verdict, (suite result)"""
import json, os, re, shutil, subprocess, sys, tempfile
from concurrent.futures import ThreadPoolExecutor

VERIF = os.path.dirname(os.path.dirname(os.path.abspath(__file__)))
B = 'qstrader/broker/simulated_broker.py'
PF = 'qstrader/broker/portfolio/portfolio.py'
PO = 'qstrader/broker/portfolio/position.py'
PH = 'qstrader/broker/portfolio/position_handler.py'
EX = 'qstrader/exchange/simulated_exchange.py'
DS = 'qstrader/data/daily_bar_csv.py'
DH = 'qstrader/data/backtest_data_handler.py'
BT = 'qstrader/trading/backtest.py'
PCM = 'qstrader/portcon/pcm.py'
DW = 'qstrader/portcon/order_sizer/dollar_weighted.py'
LS = 'qstrader/portcon/order_sizer/long_short.py'
PERF = 'qstrader/statistics/performance.py'
M = [
 ('C01', PF, "self.cash -= txn_total_cost", "self.cash -= txn_share_cost + (txn.commission if txn.quantity > 0 else 0.0)", 'commission only on buys'),
 ('C01', B, "self.portfolios[portfolio_id].subscribe_funds(self.current_dt, amount)\n        self.cash_balances[self.base_currency] -= amount", "self.portfolios[portfolio_id].subscribe_funds(self.current_dt, amount)\n        self.cash_balances[self.base_currency] -= round(amount)", 'round(amount) on the master side'),
 ('C01', PF, "balance=round(self.cash, 2)\n            )\n            self.logger.info(\n                '(%s) Asset \"%s\" transacted LONG", "balance=round(self.cash)\n            )\n            self.logger.info(\n                '(%s) Asset \"%s\" transacted LONG", 'round(self.cash) in the LONG event'),
 ('C01', B, "            self.current_dt, amount\n        )\n        self.cash_balances[self.base_currency] += amount", "            self.current_dt, amount\n        )\n        self.cash_balances[self.base_currency] -= amount", 'master sign flipped in a withdrawal'),
 ('C01', PCM, "        current_portfolio = self._obtain_current_portfolio()", "        current_portfolio = self._obtain_current_portfolio()\n        self.broker.portfolios[self.broker_portfolio_id].cash = self.broker.portfolios[self.broker_portfolio_id].cash", 'new .cash writer in pcm.py'),
 ('C01', PF, "        self.cash -= amount\n\n        self.history.append(", "        self.cash -= amount\n\n        (lambda *_: None)(", 'history append dropped on withdraw'),
 ('C01', B, "            pmv = self.get_portfolio_total_market_value(", "            pmv = self.get_portfolio_market_value(", 'D1 typo reintroduced'),
 ('C02', PH, "if self.positions[asset].net_quantity == 0:", "if self.positions[asset].net_quantity <= 0:", 'del guard <= 0'),
 ('C02', PH, "        if self.positions[asset].net_quantity == 0:\n            del self.positions[asset]", "        if self.positions[asset].net_quantity == 0:\n            pass", 'del removed'),
 ('C02', PO, "                -1.0 * transaction.quantity,", "                transaction.quantity,", '_transact_sell(+q)'),
 ('C02', PO, "        return self.current_price * self.net_quantity", "        return self.avg_price * self.net_quantity", 'market_value from avg_price'),
 ('C02', PF, '"quantity": pos.net_quantity,', '"quantity": pos.buy_quantity,', "'quantity': pos.buy_quantity"),
 ('C02', PF, "                current_price, current_dt\n            )", "                self.pos_handler.positions[asset].current_price, current_dt\n            )", 'mark passes a different price'),
 ('C03', PO, "((self.sell_quantity / self.buy_quantity) * self.buy_commission) -", "((self.sell_quantity / self.buy_quantity) * self.sell_commission) -", 'wrong side commission pro-rated'),
 ('C03', PO, "return (self.avg_sold * self.sell_quantity - self.sell_commission) / self.sell_quantity", "return (self.avg_sold * self.sell_quantity + self.sell_commission) / self.sell_quantity", 'avg_price sign of sell_commission'),
 ('C03', PO, "        return self.realised_pnl + self.unrealised_pnl", "        return self.realised_pnl + self.unrealised_pnl - 0.0 * self.commission + self.buy_commission * 0 + (self.sell_commission if self.net_quantity == 0 else 0.0)", 'total_pnl extra term when flat'),
 ('C03', PO, "            self.current_price = market_price", "            self.current_price = market_price\n            self.avg_bought = self.avg_bought", 'update_current_price also touches avg_bought'),
 ('C04', EX, "dt.time() < self.close_dt", "dt.time() <= self.close_dt", 'close <='),
 ('C04', EX, "if dt.weekday() > 4:", "if dt.weekday() > 5:", 'weekday() > 5'),
 ('C04', B, "sorted_orders = sorted(orders, key=lambda x: x[1].direction)", "sorted_orders = orders", 'sort removed'),
 ('C04', B, "sorted_orders = sorted(orders, key=lambda x: x[1].direction)", "sorted_orders = sorted(orders, key=lambda x: x[1].direction, reverse=True)", 'reverse=True'),
 ('C04', B, "self.open_orders[portfolio_id_str] = queue.Queue()", "self.open_orders[portfolio_id_str] = queue.LifoQueue()", 'LifoQueue'),
 ('C04', B, "                while not self.open_orders[portfolio].empty():", "                if not self.open_orders[portfolio].empty():", 'if for while in the drain'),
 ('C04', B, "        scaled_quantity = order.quantity", "        scaled_quantity = order.quantity if est_total_cost <= total_cash else int(order.quantity / 2)", 'scaled quantity'),
 ('C04', B, "                self._execute_order(dt, portfolio, order)", "                self._execute_order(dt, portfolio, order)\n                if order.quantity < 0:\n                    self._execute_order(dt, portfolio, order)", 'second _execute_order call'),
 ('C05', B, "        if order.direction > 0:\n            price = bid_ask[1]\n        else:\n            price = bid_ask[0]", "        if order.direction > 0:\n            price = bid_ask[0]\n        else:\n            price = bid_ask[1]", 'indices swapped'),
 ('C05', B, "consideration = round(price * order.quantity)", "consideration = price * order.quantity", 'consideration unrounded'),
 ('C05', B, "commission=total_commission", "commission=1.0", 'constant commission'),
 ('C05', B, "order.asset, scaled_quantity, self.current_dt,", "order.asset, scaled_quantity, order.created_dt,", 'stamp with order.created_dt'),
 ('C05', 'qstrader/broker/fee_model/percent_fee_model.py', "return self.commission_pct * abs(consideration)", "return self.commission_pct * consideration", 'abs dropped'),
 ('C05', B, "order.asset, order.quantity, consideration, self\n        )", "order.asset, consideration, order.quantity, self\n        )", 'fee arguments swapped'),
 ('C06', DS, "method='pad')\n        if row[0] < 0:  # No bar at or before dt\n            return np.nan\n        bid_series", "method='nearest')\n        if row[0] < 0:  # No bar at or before dt\n            return np.nan\n        bid_series", "'nearest' in get_bid"),
 ('C06', DS, ".ffill().set_index('Date').sort_index()", ".bfill().set_index('Date').sort_index()", '.bfill()'),
 ('C06', DS, "        if row[0] < 0:  # No bar at or before dt\n            return np.nan\n        ask_series", "        ask_series", 'sentinel guard removed in get_ask (D2 back)'),
 ('C06', DS, "== 'Open', 'Date'] += pd.Timedelta(hours=14, minutes=30)", "== 'Open', 'Date'] += pd.Timedelta(hours=21, minutes=0)", 'Open offset 21:00'),
 ('C06', DS, "        bar_df = bar_df.sort_index()\n", "        bar_df = bar_df\n", 'bar frame not sorted first'),
 ('C07', 'qstrader/signals/signals_collection.py', "price = self.data_handler.get_asset_latest_mid_price(dt, asset)", "price = self.data_handler.get_asset_latest_mid_price(dt + __import__('pandas').Timedelta(days=1), asset)", 'dt + 1 day at a price lookup'),
 ('C07', PCM, "universe_assets = self.universe.get_assets(dt)\n        return sorted(", "universe_assets = self.universe.get_assets(self.broker.start_dt)\n        return sorted(", 'get_assets(start_dt)'),
 ('C07', BT, 'if self.signals is not None and event.event_type == "market_close":', 'if self.signals is not None and event.event_type == "market_open":', 'signals at the open'),
 ('C08', DW, "return self.broker.get_portfolio_total_equity(self.broker_portfolio_id)", "return self.broker.get_portfolio_cash_balance(self.broker_portfolio_id)", 'sizer reads the cash balance'),
 ('C08', 'qstrader/system/qts.py', "        if self.long_only:\n            if 'cash_buffer_percentage' not in kwargs:", "        if not self.long_only:\n            if 'cash_buffer_percentage' not in kwargs:", 'sizer classes swapped'),
 ('C08', 'qstrader/execution/execution_handler.py', "            for order in final_orders:\n", "            for order in final_orders[1:]:\n", 'an order skipped in the handler loop'),
 ('C08', BT, "submit_orders=True\n            )\n        else:", "submit_orders=False\n            )\n        else:", 'submit_orders=False (long only)'),
 ('C08', BT, "broker.subscribe_funds_to_portfolio(self.portfolio_id, self.initial_cash)", "broker.subscribe_funds_to_portfolio(self.portfolio_id, self.initial_cash / 2)", 'portfolio funded with half the cash'),
 ('C09', PCM, "                set(broker_assets).union(set(universe_assets))", "                set(universe_assets)", 'universe-only asset set'),
 ('C09', PCM, "return {**zero_weights, **optimised_weights}", "return {**optimised_weights, **zero_weights}", 'overlay order swapped'),
 ('C09', PCM, "order_qty = target_qty - current_qty", "order_qty = current_qty - target_qty", 'current - target'),
 ('C09', PCM, 'if rebalance_portfolio[asset]["quantity"] != 0', 'if rebalance_portfolio[asset]["quantity"] > 0', 'filter > 0'),
 ('C09', PCM, "alloc_dict.update(full_weights)", "alloc_dict.update(optimised_weights)", 'stats receive the optimiser weights only'),
 ('C09', DW, "        for asset, weight in sorted(normalised_weights.items()):\n", "        for asset, weight in sorted(normalised_weights.items()):\n            if weight == 0.0:\n                continue\n", 'continue on zero weight in a sizer'),
 ('C10', DW, "asset_quantity = int(\n                np.floor(after_cost_dollar_weight / asset_price)\n            )", "asset_quantity = int(\n                np.round(after_cost_dollar_weight / asset_price)\n            )", 'np.round'),
 ('C10', DW, "after_cost_dollar_weight = pre_cost_dollar_weight - est_costs", "after_cost_dollar_weight = pre_cost_dollar_weight", 'fee not subtracted'),
 ('C10', DW, "cash_buffer_percentage < 0.0 or cash_buffer_percentage > 1.0", "cash_buffer_percentage < 0.0 or cash_buffer_percentage >= 1.0", 'buffer guard >= 1.0'),
 ('C10', DW, "total_equity * (\n            1.0 - self.cash_buffer_percentage\n        )", "total_equity", 'buffer not applied'),
 ('C10', DW, "            if np.isnan(asset_price):\n", "            if False and np.isnan(asset_price):\n", 'NaN guard disabled'),
 ('C11', LS, "                np.floor(after_cost_dollar_weight)\n                if after_cost_dollar_weight >= 0.0\n                else np.ceil(after_cost_dollar_weight)", "                np.ceil(after_cost_dollar_weight)\n                if after_cost_dollar_weight >= 0.0\n                else np.floor(after_cost_dollar_weight)", 'floor/ceil swapped'),
 ('C11', LS, "            gross_leverage <= 0.0", "            gross_leverage < 0.0", 'leverage < 0.0'),
 ('C11', LS, "gross_ratio = self.gross_leverage / gross_exposure", "gross_ratio = gross_exposure / self.gross_leverage", 'ratio inverted'),
 ('C11', LS, "np.abs(weight) for weight in weights.values()", "weight for weight in weights.values()", 'abs dropped in gross exposure'),
 ('C12', 'qstrader/simulation/daily_bday.py', "datetime.datetime(year, month, day, 23, 59), tz='UTC'", "datetime.datetime(year, month, day, 20, 59), tz='UTC'", 'post-market 20:59'),
 ('C12', 'qstrader/simulation/daily_bday.py', "freq=BDay()", "freq='D'", "freq='D'"),
 ('C12', 'qstrader/simulation/daily_bday.py', "if ending_day < starting_day:", "if ending_day <= starting_day:", 'end check <='),
 ('C13', 'qstrader/system/rebalance/end_of_month.py', "freq='BME'", "freq='ME'", "'ME'"),
 ('C13', 'qstrader/system/rebalance/weekly.py', 'weekdays = ("MON", "TUE", "WED", "THU", "FRI")', 'weekdays = ("MON", "TUE", "WED", "THU", "FRI", "SAT")', "'SAT' accepted"),
 ('C13', 'qstrader/system/rebalance/daily.py', 'return "14:30:00" if pre_market else "21:00:00"', 'return "21:00:00" if pre_market else "14:30:00"', 'market times swapped in one sibling'),
 ('C13', 'qstrader/system/rebalance/weekly.py', "freq='W-%s' % self.weekday", "freq='W'", "freq='W'"),
 ('C13', 'qstrader/system/rebalance/buy_and_hold.py', "        if not self._is_business_day():\n            rebalance_date = self.start_dt + BusinessDay()\n        else:\n            rebalance_date = self.start_dt", "        rebalance_date = self.start_dt + BusinessDay()", 'unconditional + BusinessDay()'),
 ('C14', BT, "                if dt >= self.burn_in_dt:\n                    if self._is_rebalance_event(dt):", "                if dt > self.burn_in_dt:\n                    if self._is_rebalance_event(dt):", 'burn-in >'),
 ('C14', BT, '            if event.event_type == "market_close":\n                if self.burn_in_dt is not None:', '            if event.event_type == "market_open":\n                if self.burn_in_dt is not None:', 'equity at the open'),
 ('C14', BT, "alloc_df = alloc_df.reindex(index=equity_curve.index, method='ffill')", "alloc_df = alloc_df.reindex(index=equity_curve.index, method='bfill')", "'bfill' reindex"),
 ('C14', PCM, "        rebalance_orders = self._generate_rebalance_orders(\n            dt, target_portfolio, current_portfolio\n        )", "        rebalance_orders = self._generate_rebalance_orders(\n            dt, target_portfolio, current_portfolio\n        )\n        for o in rebalance_orders:\n            self.broker.submit_order(self.broker_portfolio_id, o)", 'submit_order called from PCM'),
 ('C15', B, "        self.portfolios[portfolio_id].withdraw_funds(\n            self.current_dt, amount\n        )\n        self.cash_balances[self.base_currency] += amount", "        self.cash_balances[self.base_currency] += amount\n        self.portfolios[portfolio_id].withdraw_funds(\n            self.current_dt, amount\n        )", 'credit before the portfolio call'),
 ('C15', PF, "        if amount < 0.0:\n            raise ValueError(\n                'Cannot credit negative amount: '\n                '%s to the portfolio.' % amount\n            )\n\n        self.cash += amount", "        self.cash += amount\n\n        if amount < 0.0:\n            raise ValueError(\n                'Cannot credit negative amount: '\n                '%s to the portfolio.' % amount\n            )", 'write above a check'),
 ('C15', B, "        # Check that the portfolio actually exists\n        if portfolio_id not in self.portfolios.keys():\n            raise KeyError(\n                \"Portfolio with ID '%s' does not exist. Order with \"", "        # Check that the portfolio actually exists\n        if portfolio_id not in self.portfolios.keys() and portfolio_id is None:\n            raise KeyError(\n                \"Portfolio with ID '%s' does not exist. Order with \"", 'submit_order guard weakened'),
 ('C16', 'qstrader/signals/vol.py', "return np.std(returns) * np.sqrt(252)", "return np.std(returns, ddof=1) * np.sqrt(252)", 'ddof=1'),
 ('C16', 'qstrader/signals/vol.py', "return np.std(returns) * np.sqrt(252)", "return np.std(returns) * np.sqrt(365)", 'sqrt(365)'),
 ('C16', 'qstrader/signals/momentum.py', "return '%s_%s' % (asset, lookback + 1)", "return '%s_%s' % (asset, lookback)", 'reader key without +1'),
 ('C16', 'qstrader/signals/buffer.py', "deque(maxlen=lookback)", "deque(maxlen=lookback + 1)", 'maxlen=lookback+1'),
 ('C17', PERF, "    hwm[0] = returns.iloc[0]\n", "", 'seed removed (D3 back)'),
 ('C17', PERF, 'perf["Drawdown"] = (hwm - returns) / hwm', 'perf["Drawdown"] = (hwm - returns) / returns', '(hwm - x)/x'),
 ('C17', PERF, "return (equity.iloc[-1] ** (1.0 / years)) - 1.0", "return (equity.iloc[-1] ** years) - 1.0", 'exponent inverted'),
 ('C17', PERF, "np.std(returns[returns < 0])", "np.std(returns[returns <= 0])", 'Sortino <='),
 ('C17', 'qstrader/statistics/tearsheet.py', "equity_df[\"returns\"] = equity_df[\"Equity\"].pct_change().fillna(0.0)", "equity_df[\"returns\"] = equity_df[\"Equity\"].diff().fillna(0.0)", 'tearsheet returns from diff()'),
 ('C18', PCM, "        return sorted(\n            list(\n                set(broker_assets).union(set(universe_assets))\n            )\n        )", "        return list(\n            set(broker_assets).union(set(universe_assets))\n        )", 'sorted removed in PCM'),
 ('C18', B, "sorted_orders = sorted(orders, key=lambda x: x[1].direction)", "sorted_orders = sorted(orders, key=lambda x: (x[1].direction, x[1].order_id))", 'sort key on order_id'),
 ('C18', BT, "self.equity_curve.append(\n            (dt, self.broker.get_account_total_equity()[\"master\"])\n        )", "self.equity_curve.append(\n            (dt, self.broker.get_account_total_equity()[\"master\"] + 0.0 * __import__('time').time())\n        )", 'time.time() into equity'),
 ('C19', 'qstrader/asset/universe/dynamic.py', "dt >= asset_date", "dt > asset_date", 'dt > asset_date'),
 ('C19', 'qstrader/asset/universe/dynamic.py', "if asset_date is not None and dt >= asset_date", "if asset_date is None or dt >= asset_date", 'None admitted'),
 ('C19', 'qstrader/portcon/optimiser/equal_weight.py', "equal_weight = 1.0 / float(num_assets)", "equal_weight = 1.0 / float(num_assets + 1)", 'N + 1'),
 ('C19', 'qstrader/portcon/optimiser/fixed_weight.py', "        return initial_weights", "        return {k: v for k, v in initial_weights.items() if v != 0.0}", 'fixed-weight drops zero weights'),
]


def one(args):
    i, (pid, f, old, new, note), suite = args
    d = tempfile.mkdtemp(prefix='qshm.', dir='/dev/shm')
    try:
        subprocess.run('git -C /repo archive HEAD | tar -x -C %s' % d, shell=True, check=True)
        p = os.path.join(d, f)
        s = open(p).read()
        if s.count(old) != 1:
            return i, pid, note, 'ANCHOR-%d' % s.count(old), ''
        open(p, 'w').write(s.replace(old, new))
        try:
            compile(open(p).read(), p, 'exec')
        except SyntaxError as e:
            return i, pid, note, 'SYNTAX', ''
        env = dict(os.environ, QSVERIF_EVIDENCE_DIR=os.path.join(d, '.ev'))
        r = subprocess.run([os.path.join(VERIF, 'check'), pid, '--root', d], cwd=VERIF, env=env, stdout=subprocess.PIPE, stderr=subprocess.STDOUT, text=True)
        m = re.search(r'^%s (HOLDS-ON-DECIDED-CLAUSES|HOLDS|VIOLATION|ANALYSIS-ERROR) tier' % pid, r.stdout, re.M)
        verdict = m.group(1) if m else 'ANALYSIS-ERROR'
        st = ''
        if suite:
            e2 = dict(os.environ, PYTHONPATH=d, PYTHONDONTWRITEBYTECODE='1')
            t = subprocess.run('/venv/bin/python -m pytest -q -p no:cacheprovider --timeout=900 -x 2>&1 | tail -1', shell=True, cwd=d, env=e2, stdout=subprocess.PIPE, text=True)
            st = 'survives' if '151 passed' in t.stdout else 'killed-by-suite'
        return i, pid, note, verdict, st
    finally:
        shutil.rmtree(d, ignore_errors=True)


if __name__ == '__main__':
    suite = '--suite' in sys.argv
    with ThreadPoolExecutor(14) as ex:
        res = list(ex.map(one, [(i, m, suite) for i, m in enumerate(M)]))
    miss = 0
    for i, pid, note, verdict, st in res:
        flag = '' if verdict == 'VIOLATION' else '   <<<<<<'
        if verdict != 'VIOLATION':
            miss += 1
        print('%-4s %-55s %-12s %s%s' % (pid, note[:55], verdict, st, flag))
    print('%d mutants, %d not reported as VIOLATION' % (len(res), miss))
