#!/usr/bin/env python3
"""Print DESIGN.md sections 10.7-10.10 (rounds 4 and 5 of the seeded corpus) from seeded/*/meta.json as written by tools/refresh_corpus.py.
usage: design_rounds.py > /tmp/sections.md   (the text between the markers <!-- rounds45:begin --> and <!-- rounds45:end --> of DESIGN.md is replaced with it
by tools/design_rounds.py --install)"""
import glob, json, os, re, subprocess, sys
V = os.path.dirname(os.path.dirname(os.path.abspath(__file__)))
sys.path.insert(0, os.path.join(V, 'tools'))
from refresh_corpus import round_of  # noqa: E402  (importing runs nothing: the module body is guarded below)


def metas(rnd, kind):
    out = []
    for d in sorted(glob.glob(os.path.join(V, 'seeded', 'C??-*'))):
        if round_of(os.path.basename(d)) == (rnd, kind):
            out.append((os.path.basename(d), json.load(open(os.path.join(d, 'meta.json')))))
    return out


def table(rows):
    print('| change | what it does | rules of its own property that fire | other properties whose check also fires |')
    print('|---|---|---|---|')
    for name, m in rows:
        cb = m.get('caught_by') or {}
        s = ' '.join((m.get('summary') or '').split())
        s = (s[:150] + '…') if len(s) > 150 else s
        print('| %s | %s | %s | %s |' % (name, s.replace('|', '/'), ', '.join(cb.get('own_property_check') or []) or '—', ', '.join(cb.get('other_checks') or []) or '—'))


def figures(rnd):
    D = metas(rnd, 'defect')
    own = [n for n, m in D if (m.get('caught_by') or {}).get('own_property_check')]
    other = [n for n, m in D if not (m.get('caught_by') or {}).get('own_property_check') and (m.get('caught_by') or {}).get('other_checks')]
    none = [n for n, m in D if not (m.get('caught_by') or {}).get('own_property_check') and not (m.get('caught_by') or {}).get('other_checks')]
    P = metas(rnd, 'twin') + metas(rnd, 'refactor')
    viol = [n for n, m in P if 'VIOLATION' in (m.get('all_19_checks') or '')]
    und = [n for n, m in P if 'undecided clause(s)' in (m.get('all_19_checks') or '')]
    return D, own, other, none, P, viol, und


def main():
    for rnd, sec, what in ((4, 7, 'written against the round-3 generalisations'), (5, 9, 'written against the round-4 generalisations')):
        D, own, other, none, P, viol, und = figures(rnd)
        tw = [p for p in P if p[0].endswith('-fixed')]
        rf = [p for p in P if not p[0].endswith('-fixed')]
        print('### 10.%d Round %d, seeded defects as twin pairs (%d defects + %d corrected twins)\n' % (sec, rnd, len(D), len(tw)))
        print('19 agents x %d, same brief as round 3 (a believable restructuring with exactly one mistake, its corrected twin, a demonstration that fails with the defect and passes' % (len(D) // 19))
        print('with the twin and on the clean tree), %s: each agent was also told which kinds of restructuring earlier rounds had used and asked for' % what)
        print('others (decorators that carry behaviour, enums with data and `match`, memos behind properties, generators feeding loops, helper objects holding the state,')
        print('class-hierarchy moves, vectorisation). All %d patches confirmed with `tools/confirm_seed.py` and installed by `tools/install_round.py`.' % (len(D) + len(P)))
        print('Current state (`tools/refresh_corpus.py %d`: all 19 checks against each patch): **%d of the %d defects are reported by their own property\'s check**, %d only by' % (rnd, len(own), len(D), len(other)))
        print('another property\'s check, %d are not decided by any check (%s); **%d of the %d twins are reported by any check** (%d of them leave an undecided clause' % (
            len(none), ', '.join(none) or '-', len([v for v in viol if v.endswith('-fixed')]), len(tw), len([u for u in und if u.endswith('-fixed')])))
        print('somewhere).\n')
        table(D)
        print()
        print('### 10.%d Round %d, behaviour-preserving changes (%d)\n' % (sec + 1, rnd, len(rf)))
        print('19 agents x %d restructurings in the same styles, each with a demonstration and a differential run against the clean tree. %d of the %d are reported by any' % (len(rf) // 19, len([v for v in viol if not v.endswith('-fixed')]), len(rf)))
        print('check; %d leave at least one undecided clause in some check (listed per patch in `seeded/<id>/meta.json`, field `all_19_checks`): that is the price of' % len([u for u in und if not u.endswith('-fixed')]))
        print('"unrecognised shape => undecided" - a restructured module is mostly *not read* by the rules anchored in it, and says so.\n')
    # round 6: refactorings only, aimed at the rules added in rounds 4-5
    D, own, other, none, P, viol, und = figures(6)
    print('### 10.11 Round 6, behaviour-preserving changes aimed at the newest rules (%d)\n' % len(P))
    print('The hygiene scans and memo rules of 9.1-26..29 each encode "this idiom, written this way, is wrong". A last round of 19 agents x 2 was asked for restructurings')
    print('that use the SAME idioms in their correct form: `groupby` over input sorted by the same key, parallel lists built and filtered together and zipped,')
    print('`any()` over pure tests, `functools.partial` binding immutable arguments, functions defined in loops with the loop variable bound as a default, memos')
    print('keyed by every value they depend on, slots dropped by every setter of their inputs, `bisect_right` for "latest at or before", `Enum[name]`/`__members__`/')
    print('`match`, `next(it, default)`, `math.isclose` with an explicit `abs_tol`. First run: 12 of the %d were reported somewhere - none by a hygiene scan; all by' % len(P))
    print('older rules meeting a shape they did not read (a lazily filled slot dropped by its setters taken for history-dependent state, `scaled is vector` between')
    print('two records left undecided and so an infeasible path, `dict(zip(keys, values))`, `[k for k, _ in groupby(sorted(xs))]` as the sorted distinct list,')
    print('an Order that keeps its terms in a record, the history kept as columns, a loop fed by a generator wrapped around the clock). Each was closed as in')
    print('9.1-26 (generalise the reading, or say UNDECIDED where the rule does not read). Current state: %d of the %d are reported by any check; %d leave an' % (len(viol), len(P), len(und)))
    print('undecided clause somewhere.\n')


def totals():
    """the one-line corpus figures of the DESIGN.md header"""
    nd = no = nother = 0
    npres = nviol = nund = 0
    for rnd in (1, 2, 3, 4, 5, 6):
        D, own, other, none, P, viol, und = figures(rnd)
        nd += len(D)
        no += len(own)
        nother += len(other)
        npres += len(P)
        nviol += len(viol)
        nund += len(und)
    return ('%d seeded defects, of which %d are reported by their own property\'s check and %d more by another property\'s check; %d behaviour-preserving changes - '
            '%d of them the *corrected twins* of the round-3/4/5 defects - of which %d are reported by any check and %d leave an undecided clause somewhere'
            % (nd, no, nother, npres, sum(1 for r in (3, 4, 5) for n, _ in metas(r, 'twin')), nviol, nund))


if __name__ == '__main__':
    if '--install' in sys.argv:
        text = subprocess.run([sys.executable, os.path.abspath(__file__)], stdout=subprocess.PIPE, text=True).stdout
        p = os.path.join(V, 'DESIGN.md')
        s = open(p).read()
        a, b = '<!-- rounds45:begin -->\n', '<!-- rounds45:end -->\n'
        assert a in s and b in s
        s = s[:s.index(a) + len(a)] + text + s[s.index(b):]
        a2, b2 = '<!-- totals:begin -->\n', '<!-- totals:end -->\n'
        if a2 in s and b2 in s:
            s = s[:s.index(a2) + len(a2)] + totals() + '\n' + s[s.index(b2):]
        open(p, 'w').write(s)
        print('installed %d lines' % text.count('\n'))
    else:
        main()
