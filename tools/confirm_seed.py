#!/usr/bin/env python3
"""Confirm sub-agent changes independently: patch applies to /repo HEAD, the unedited suite passes with it, the demo fails with it (seeded defect)
or passes with it (behaviour-preserving refactor), and the demo passes on the clean tree.  Scratch copies live in /dev/shm and are removed.
usage: confirm_seed.py <src dir with patch.diff demo.py meta.json> ...   -> JSON lines"""
import json, os, shutil, subprocess, sys, tempfile
from concurrent.futures import ThreadPoolExecutor

PY = '/venv/bin/python'


def sh(cmd, cwd=None, env=None, timeout=900):
    p = subprocess.run(cmd, shell=True, cwd=cwd, env=env, stdout=subprocess.PIPE, stderr=subprocess.STDOUT, timeout=timeout, text=True)
    return p.returncode, p.stdout


def scratch():
    d = tempfile.mkdtemp(prefix='qsseed.', dir='/dev/shm')
    sh('git -C /repo archive HEAD | tar -x -C %s' % d)
    return d


CLEAN = None


def one(src):
    res = {'src': src}
    d = scratch()
    try:
        rc, out = sh('git apply %s' % os.path.join(src, 'patch.diff'), cwd=d)
        res['applies'] = rc == 0
        if rc != 0:
            res['error'] = out[-300:]
            return res
        env = dict(os.environ, PYTHONPATH=d, PYTHONDONTWRITEBYTECODE='1')
        rc, out = sh('%s -m pytest -q -p no:cacheprovider --timeout=900 -x 2>&1 | tail -3' % PY, cwd=d, env=env)
        res['suite'] = out.strip().splitlines()[-1] if out.strip() else ''
        res['suite_ok'] = '151 passed' in out
        rc, out = sh('%s %s' % (PY, os.path.join(src, 'demo.py')), cwd=tempfile.gettempdir(), env=env, timeout=600)
        res['demo_with_patch_rc'] = rc
        res['demo_with_patch_tail'] = out.strip()[-200:]
        env2 = dict(os.environ, PYTHONPATH=CLEAN, PYTHONDONTWRITEBYTECODE='1')
        rc, out = sh('%s %s' % (PY, os.path.join(src, 'demo.py')), cwd=tempfile.gettempdir(), env=env2, timeout=600)
        res['demo_clean_rc'] = rc
    except Exception as e:
        res['error'] = str(e)
    finally:
        shutil.rmtree(d, ignore_errors=True)
    return res


if __name__ == '__main__':
    CLEAN = scratch()
    try:
        with ThreadPoolExecutor(8) as ex:
            for r in ex.map(one, sys.argv[1:]):
                print(json.dumps(r))
                sys.stdout.flush()
    finally:
        shutil.rmtree(CLEAN, ignore_errors=True)
