#!/usr/bin/env python3
"""Confirm and install sub-agent changes into /verif/seeded.
usage: install_round.py <round label> <src dir>...      (src dir holds patch.diff, demo.py, meta.json and, for defects of round 3 on, fixed.diff:
the same restructuring with the one mistake corrected - installed as a behaviour-preserving twin '<id>-fixed')
Every item is confirmed with tools/confirm_seed.py (patch applies to /repo HEAD, unedited suite passes, demo fails with a defect / passes with a preserving
change, demo passes on the clean tree) and only then written to /verif/seeded/<PID>-<name>/ with a normalised meta.json."""
import json, os, re, shutil, subprocess, sys, tempfile

VERIF = os.path.dirname(os.path.dirname(os.path.abspath(__file__)))
label, srcs = sys.argv[1], sys.argv[2:]
stage = tempfile.mkdtemp(prefix='qsinst.', dir='/dev/shm')
items = []
for src in srcs:
    pid = re.search(r'(C\d\d)', src).group(1)
    name = os.path.basename(src.rstrip('/'))
    meta = json.load(open(os.path.join(src, 'meta.json')))
    defect = name.startswith('d')
    items.append((pid, name, src, 'patch.diff', 'defect' if defect else 'preserving', meta))
    if defect and os.path.exists(os.path.join(src, 'fixed.diff')):
        items.append((pid, name + '-fixed', src, 'fixed.diff', 'preserving', meta))
dirs = []
for pid, name, src, pf, kind, meta in items:
    d = os.path.join(stage, '%s-%s' % (pid, name))
    os.makedirs(d)
    shutil.copy(os.path.join(src, pf), os.path.join(d, 'patch.diff'))
    shutil.copy(os.path.join(src, 'demo.py'), os.path.join(d, 'demo.py'))
    dirs.append(d)
out = subprocess.run([sys.executable, os.path.join(VERIF, 'tools', 'confirm_seed.py')] + dirs, stdout=subprocess.PIPE, text=True).stdout
res = {json.loads(l)['src']: json.loads(l) for l in out.splitlines() if l.startswith('{')}
ok = bad = 0
for (pid, name, src, pf, kind, meta), d in zip(items, dirs):
    r = res.get(d, {})
    want_fail = kind == 'defect'
    good = r.get('applies') and r.get('suite_ok') and r.get('demo_clean_rc') == 0 and ((r.get('demo_with_patch_rc') != 0) if want_fail else (r.get('demo_with_patch_rc') == 0))
    files = sorted(set(re.findall(r'^\+\+\+ b/(\S+)', open(os.path.join(d, 'patch.diff')).read(), re.M)))
    if not good:
        bad += 1
        print('REJECTED %s-%s: %s' % (pid, name, {k: r.get(k) for k in ('applies', 'suite', 'demo_with_patch_rc', 'demo_clean_rc', 'error')}))
        continue
    ok += 1
    dst = os.path.join(VERIF, 'seeded', '%s-%s' % (pid, name))
    os.makedirs(dst, exist_ok=True)
    shutil.copy(os.path.join(d, 'patch.diff'), os.path.join(dst, 'patch.diff'))
    shutil.copy(os.path.join(d, 'demo.py'), os.path.join(dst, 'demo.py'))
    if name.endswith('-fixed'):
        kind_txt = 'behaviour-preserving twin of %s-%s, %s (the same restructuring with its one mistake corrected; the property holds; checks must not report a violation)' % (pid, name[:-6], label)
        summary = 'Corrected twin of %s-%s. The defective version: %s' % (pid, name[:-6], meta.get('summary', ''))
    elif kind == 'defect':
        kind_txt = 'seeded defect, %s (breaks the property; existing suite still passes)' % label
        summary = meta.get('summary', '')
    else:
        kind_txt = 'behaviour-preserving change, %s (the property still holds; checks must not report a violation)' % label
        summary = meta.get('summary', '')
    m = {'property': pid, 'kind': kind_txt, 'summary': summary, 'files': files,
         'author': 'independent sub-agent given only the property text, a list of what earlier changes did, and a scratch worktree of /repo (no access to /verif)',
         'confirmed_by_me': {'how': 'tools/confirm_seed.py: scratch copy of /repo HEAD in /dev/shm, git apply patch.diff, unedited suite, demo.py with and without the patch',
                             'patch_applies_to_repo_head': True, 'suite_with_patch': r.get('suite'), 'demo_with_patch_exit': r.get('demo_with_patch_rc'),
                             'demo_on_clean_tree_exit': r.get('demo_clean_rc')}}
    if kind == 'defect':
        for k in ('needs_to_manifest', 'the_one_mistake'):
            if meta.get(k):
                m[k] = meta[k]
        m['confirmed_by_me']['demo_with_patch_tail'] = (r.get('demo_with_patch_tail') or '')[-300:]
    json.dump(m, open(os.path.join(dst, 'meta.json'), 'w'), indent=1)
shutil.rmtree(stage, ignore_errors=True)
print('installed %d, rejected %d' % (ok, bad))
