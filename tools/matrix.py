#!/usr/bin/env python3
"""Detection matrix: run every check against a scratch copy of /repo HEAD with each given patch applied.
usage: matrix.py <dir with patch.diff> ...  -> JSON {name: {pid: verdict}}  (scratch copies in /dev/shm, removed afterwards)"""
import json, os, re, shutil, subprocess, sys, tempfile
from concurrent.futures import ThreadPoolExecutor

VERIF = os.path.dirname(os.path.dirname(os.path.abspath(__file__)))


def one(src):
    d = tempfile.mkdtemp(prefix='qsmx.', dir='/dev/shm')
    out = {}
    try:
        subprocess.run('git -C /repo archive HEAD | tar -x -C %s' % d, shell=True, check=True)
        p = subprocess.run(['git', 'apply', os.path.join(src, os.environ.get('MATRIX_PATCH', 'patch.diff'))], cwd=d, stdout=subprocess.PIPE, stderr=subprocess.STDOUT, text=True)
        if p.returncode != 0:
            return src, {'error': 'patch does not apply: ' + p.stdout[-200:]}
        env = dict(os.environ, QSVERIF_EVIDENCE_DIR=os.path.join(d, '.ev'))
        p = subprocess.run([os.path.join(VERIF, 'check'), '--all', '--root', d], cwd=VERIF, env=env, stdout=subprocess.PIPE, stderr=subprocess.STDOUT, text=True)
        for m in re.finditer(r'^(C\d\d) (HOLDS-ON-DECIDED-CLAUSES|HOLDS|VIOLATION|ANALYSIS-ERROR) tier', p.stdout, re.M):
            out[m.group(1)] = m.group(2)
        rules = {}
        for m in re.finditer(r'^VIOLATION property=(C\d\d) replay=\S+\n  rule=(\S+)', p.stdout, re.M):
            rules.setdefault(m.group(1), []).append(m.group(2))
        out['_rules'] = {k: sorted(set(v)) for k, v in rules.items()}
    finally:
        shutil.rmtree(d, ignore_errors=True)
    return src, out


if __name__ == '__main__':
    res = {}
    with ThreadPoolExecutor(14) as ex:
        for src, out in ex.map(one, sys.argv[1:]):
            res[src] = out
    json.dump(res, sys.stdout, indent=1)
