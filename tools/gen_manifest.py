#!/usr/bin/env python3
"""Regenerate /verif/MANIFEST.json from qsverif/props.py (run from /verif)."""
import json, os, sys
sys.path.insert(0, os.path.dirname(os.path.dirname(os.path.abspath(__file__))))
from qsverif.props import PROPS, TECHNIQUE, NOT_APPLICABLE, LEVEL_NOTE

ALL = ['C%02d' % i for i in range(1, 20)]
checks = []
for pid in ALL:
    if pid not in PROPS:
        continue
    m = PROPS[pid]
    checks.append({
        'property_id': pid,
        'quick_cmd': './check %s --tier quick' % pid,
        'thorough_cmd': './check %s --tier thorough' % pid,
        'evidence_file': '/verif/evidence/%s.json' % pid,
        'replay_cmd_template': './check %s --explain {path}' % pid,
        'engine': 'qsverif',
        'level_claimed': {'category': m['level'], 'text': m['explanation'], 'design_ref': 'DESIGN.md section 4, %s' % pid},
        'level_note': LEVEL_NOTE,
        'technique': TECHNIQUE.get(pid, 'static analysis: ast-based per-path summaries and ownership scans'),
    })
na = [{'property_id': p, 'reason': NOT_APPLICABLE.get(p, 'check not built yet in this round (static rules planned in DESIGN.md section 4)')} for p in ALL if p not in PROPS]
man = {
    'version': 1,
    'setup_cmd': './check --selfcheck',
    'hooks': {'guard': 'MHALLSMOORE_QSTRADER_VERIF', 'enable': 'none needed: the checks read source text only; the guard is unused',
              'baseline_off_cmd': 'cd /repo && /venv/bin/python -m pytest -ra -q -p no:cacheprovider --timeout=900 --continue-on-collection-errors',
              'source_commits': [], 'add_only': True},
    'engines': [{'name': 'qsverif', 'path': '/verif/qsverif', 'serves_properties': [c['property_id'] for c in checks],
                 'kind_free_text': 'repository-specific static analyser (stdlib ast only): resolved program model (constructor wiring, numpydoc types, CHA), '
                                   'per-path symbolic summaries with canonical rational-function arithmetic (no solver), ownership tables, '
                                   'dirty-raise analysis, decision tables over compared predicates, constant-table agreement'}],
    'checks': checks,
    'not_applicable': na,
    'notes': 'Static analysis only: nothing from /repo is imported or executed by any check. Exit 0 holds (KNOWN-FINDING / NOTE lines allowed), '
             'exit 1 with VIOLATION lines, exit 2 with ANALYSIS-ERROR only for parse or internal errors. A clause whose code the rule does not read (unrecognised shape, '
             'vanished private anchor, construct outside the modelled subset) is printed as UNDECIDED and the verdict line reads HOLDS-ON-DECIDED-CLAUSES (exit 0). '
             'Genuine defects repaired in /repo as fix: commits and the one recorded finding are listed in known_findings.json.',
}
with open(os.path.join(os.path.dirname(os.path.dirname(os.path.abspath(__file__))), 'MANIFEST.json'), 'w') as fh:
    json.dump(man, fh, indent=1)
print('MANIFEST.json: %d checks, %d not applicable' % (len(checks), len(na)))
