#!/usr/bin/env python3
"""Markdown table of seeded defects (which rules catch which change) from seeded/*/meta.json.  usage: corpus_table.py <glob suffix, e.g. 'd2_'>"""
import glob, json, os, sys
V = os.path.dirname(os.path.dirname(os.path.abspath(__file__)))
suf = sys.argv[1] if len(sys.argv) > 1 else ''
print('| change | what it does | rules of its own property that fire | other properties whose check also fires |')
print('|---|---|---|---|')
for d in sorted(glob.glob(os.path.join(V, 'seeded', 'C??-%s*' % suf))):
    m = json.load(open(os.path.join(d, 'meta.json')))
    if 'caught_by' not in m:
        continue
    s = ' '.join((m.get('summary') or '').split())
    s = (s[:150] + '…') if len(s) > 150 else s
    print('| %s | %s | %s | %s |' % (os.path.basename(d), s.replace('|', '/'), ', '.join(m['caught_by']['own_property_check']) or '—', ', '.join(m['caught_by']['other_checks']) or '—'))
