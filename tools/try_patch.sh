#!/bin/sh
# tools/try_patch.sh <patch.diff> <pid> [<pid>...] : run checks against a scratch copy of /repo HEAD with the patch applied.
# Scratch copy and evidence go to /dev/shm and are removed afterwards; /repo itself is not touched.
P=$(readlink -f "$1"); shift
D=$(mktemp -d /dev/shm/qsv.XXXXXX)
git -C /repo archive HEAD | tar -x -C "$D"
( cd "$D" && git init -q . 2>/dev/null; git -C "$D" apply "$P" ) || { echo "PATCH DOES NOT APPLY: $P"; rm -rf "$D"; exit 3; }
cd /verif
for pid in "$@"; do
  QSVERIF_EVIDENCE_DIR="$D/.ev" ./check "$pid" --root "$D" 2>&1 | grep -v "^NOTE" | cut -c1-300
done
rm -rf "$D"
