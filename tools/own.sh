#!/bin/sh
# tools/own.sh <ID> <glob suffix e.g. d2_> : run the property's own check on each /tmp/seedout/<ID>/<suffix>* patch, one summary line each
ID=$1; SUF=$2
for d in /tmp/seedout/$ID/${SUF}*; do
  [ -f "$d/patch.diff" ] || continue
  r=$(tools/try_patch.sh $d/patch.diff $ID | grep -v "KNOWN\|NOTE" | grep "rule=\|tier=\|UNDECIDED" | cut -c1-170 | head -${3:-3} | tr '\n' '|')
  echo "$(basename $d): $r"
done
