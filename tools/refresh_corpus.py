#!/usr/bin/env python3
"""Re-run all 19 checks against every patch of the corpus (tools/matrix.py), write the outcome into each seeded/<id>/meta.json and print, per round,
the figures quoted in DESIGN.md section 10.  usage: tools/refresh_corpus.py [round ...]      rounds: 1 2 3 4 5 (default: all)

round 1: Cxx-<n>, Cxx-r1..r4      round 2: Cxx-d2_k, Cxx-r5..r8      round 3: Cxx-d3_k(-fixed), Cxx-r9..r12
round 4: Cxx-d4_k(-fixed), Cxx-r13..r16      round 5: Cxx-d5_k(-fixed), Cxx-r17..r18      round 6: Cxx-r19..r20 (refactorings only)"""
import glob, json, os, re, subprocess, sys
V = os.path.dirname(os.path.dirname(os.path.abspath(__file__)))


def round_of(name):
    m = re.match(r'C\d\d-(.*)$', name)
    s = m.group(1)
    if re.fullmatch(r'\d+', s):
        return 1, 'defect'
    m2 = re.fullmatch(r'd(\d)_\d+(-fixed)?', s)
    if m2:
        return int(m2.group(1)), ('twin' if m2.group(2) else 'defect')
    m3 = re.fullmatch(r'r(\d+)', s)
    if m3:
        k = int(m3.group(1))
        return (1 if k <= 4 else 2 if k <= 8 else 3 if k <= 12 else 4 if k <= 16 else 5 if k <= 18 else 6), 'refactor'
    return 0, '?'


def mx(dirs):
    if not dirs:
        return {}
    out = subprocess.run([sys.executable, os.path.join(V, 'tools', 'matrix.py')] + dirs, stdout=subprocess.PIPE, stderr=subprocess.DEVNULL, text=True).stdout
    return json.loads(out)


def main():
    want = {int(a) for a in sys.argv[1:]} or {1, 2, 3, 4, 5, 6}
    alld = sorted(glob.glob(os.path.join(V, 'seeded', 'C??-*')))
    for rnd in sorted(want):
        D = [d for d in alld if round_of(os.path.basename(d)) == (rnd, 'defect')]
        P = [d for d in alld if round_of(os.path.basename(d))[0] == rnd and round_of(os.path.basename(d))[1] in ('twin', 'refactor')]
        if not D and not P:
            continue
        m = mx(D)
        own = other = 0
        none = []
        for d, v in sorted(m.items()):
            pid = re.search(r'(C\d\d)', os.path.basename(d)).group(1)
            mp = os.path.join(d, 'meta.json')
            meta = json.load(open(mp))
            rules = v.get('_rules', {})
            ownr = rules.get(pid, [])
            others = sorted(p for p, x in v.items() if p != '_rules' and x == 'VIOLATION' and p != pid)
            und = sorted(p for p, x in v.items() if p != '_rules' and x == 'HOLDS-ON-DECIDED-CLAUSES')
            meta['caught_by'] = {'own_property_check': ownr, 'other_checks': others, 'own_verdict': v.get(pid), 'undecided_in': und,
                                 'matrix_run': 'tools/refresh_corpus.py (tools/matrix.py) at the commit that last touched this file'}
            json.dump(meta, open(mp, 'w'), indent=1)
            own += bool(ownr)
            other += bool(others and not ownr)
            if not ownr and not others:
                none.append(os.path.basename(d))
        print('round %d defects: %d; %d reported by their own check, %d only by another check, %d not decided by any: %s' % (rnd, len(m), own, other, len(none), ', '.join(none)))
        p = mx(P)
        bad, und_items = [], []
        for d, v in sorted(p.items()):
            mp = os.path.join(d, 'meta.json')
            meta = json.load(open(mp))
            viol = sorted(q for q, x in v.items() if q != '_rules' and x in ('VIOLATION', 'ANALYSIS-ERROR'))
            und = sorted(q for q, x in v.items() if q != '_rules' and x == 'HOLDS-ON-DECIDED-CLAUSES')
            if viol:
                bad.append('%s %s' % (os.path.basename(d), viol))
            if und:
                und_items.append('%s (%s)' % (os.path.basename(d), ', '.join(und)))
            meta['all_19_checks'] = ('no violation' if not viol else 'VIOLATION in %s' % viol) + ('; no undecided clause' if not und else '; undecided clause(s) in %s' % ', '.join(und)) + \
                ' (tools/refresh_corpus.py at the commit that last touched this file)'
            json.dump(meta, open(mp, 'w'), indent=1)
        print('round %d preserving: %d; %d with a violation %s; %d with an undecided clause somewhere' % (rnd, len(p), len(bad), bad, len(und_items)))
        print('round %d UNDECIDED-LIST: %s' % (rnd, '; '.join(und_items)))


if __name__ == '__main__':
    main()
