import os, tempfile, numpy as np, pandas as pd, pytz
from qstrader import settings
from qstrader.asset.equity import Equity
from qstrader.data.daily_bar_csv import CSVDailyBarDataSource
settings.set_print_events(False)
d = tempfile.mkdtemp()
open(os.path.join(d, 'AAA.csv'), 'w').write('Date,Open,High,Low,Close,Adj Close,Volume\n2020-01-06,1,1,1,2,2,1\n2020-01-07,3,3,3,4,4,1\n')
ds = CSVDailyBarDataSource(d, Equity, csv_symbols=['AAA'])
v = ds.get_bid(pd.Timestamp('2020-01-03 21:00', tz=pytz.utc), 'EQ:AAA')
assert np.isnan(v), 'query before the first bar returned %r (the LAST bar close) instead of NaN' % v
print('ok')
