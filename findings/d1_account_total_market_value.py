import pandas as pd, pytz
from qstrader import settings
from qstrader.broker.simulated_broker import SimulatedBroker
settings.set_print_events(False)
class Ex:
    def is_open_at_datetime(self, dt): return True
class DH:
    def get_asset_latest_bid_ask_price(self, dt, a): return (10.0, 10.0)
    def get_asset_latest_mid_price(self, dt, a): return 10.0
b = SimulatedBroker(pd.Timestamp('2020-01-06 14:30', tz=pytz.utc), Ex(), DH(), initial_funds=1000.0)
b.create_portfolio('p')
tmv = b.get_account_total_market_value()      # AttributeError before the fix
assert tmv == {'p': 0.0, 'master': 0.0}, tmv
print('ok')
