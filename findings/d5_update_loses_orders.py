import pandas as pd, pytz
from qstrader import settings
from qstrader.broker.simulated_broker import SimulatedBroker
from qstrader.execution.order import Order
settings.set_print_events(False)
t = lambda s: pd.Timestamp(s, tz=pytz.utc)
class Ex:
    def is_open_at_datetime(self, dt): return True
class DH:
    def get_asset_latest_bid_ask_price(self, dt, a): return (10.0, 10.0)
    def get_asset_latest_mid_price(self, dt, a): return 10.0
b = SimulatedBroker(t('2020-01-06 14:30'), Ex(), DH(), initial_funds=1000.0)
b.create_portfolio('p')
b.update(t('2020-01-07 14:30'))
b.subscribe_funds_to_portfolio('p', 1000.0)                 # portfolio clock is now 2020-01-07 14:30
b.submit_order('p', Order(t('2020-01-07 14:30'), 'EQ:A', 10))
pending = b.open_orders['p'].qsize()
try:
    b.update(t('2020-01-06 15:00'))                         # earlier than the portfolio clock: the fill is refused
    raise SystemExit('expected a refusal')
except ValueError:
    pass
assert b.open_orders['p'].qsize() == pending, 'refused update lost %d pending order(s)' % (pending - b.open_orders['p'].qsize())
print('ok')
