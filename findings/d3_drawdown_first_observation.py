import pandas as pd
from qstrader.statistics.performance import create_drawdowns
s = pd.Series([1.0, 0.9, 0.8, 0.85], index=pd.date_range('2020-01-01', periods=4))
dd, mx, dur = create_drawdowns(s)
assert abs(mx - 0.2) < 1e-12 and dur == 3, (mx, dur)
print('ok')
