import pandas as pd, pytz
from qstrader import settings
from qstrader.broker.portfolio.portfolio import Portfolio
from qstrader.broker.transaction.transaction import Transaction
settings.set_print_events(False)
t = lambda s: pd.Timestamp(s, tz=pytz.utc)
p = Portfolio(t('2020-01-06 14:30'), starting_cash=10000.0)
p.transact_asset(Transaction('EQ:A', 10, t('2020-01-06 14:30'), 10.0, '1'))
p.update_market_value_of_asset('EQ:A', 11.0, t('2020-01-08 21:00'))      # advances the position clock only
before = (p.cash, p.portfolio_to_dict()['EQ:A']['quantity'], len(p.history))
try:
    p.transact_asset(Transaction('EQ:A', 5, t('2020-01-07 14:30'), 10.0, '2'))
    raise SystemExit('expected a refusal')
except ValueError:
    pass
after = (p.cash, p.portfolio_to_dict()['EQ:A']['quantity'], len(p.history))
assert before == after, 'refused fill changed state: %s -> %s' % (before, after)
print('ok')
